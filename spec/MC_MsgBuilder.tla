--------------------------- MODULE MC_MsgBuilder ---------------------------
(* Exhaustive exploration of MsgBuilder.tla over operation sequences of     *)
(* bounded length, every compressor and every target kind, with real        *)
(* offsets; and the generator of behaviours for the S->I binding.           *)
EXTENDS MsgBuilder, Json

CONSTANTS Scenario,   \* "small": every call, short names + a maximal name, small capacity / limits
                      \* "big":   filler records that put names on both sides of 0x3FFF, 0xBFFF, 0xFFFF
                      \* "reply": the header written through header_mut(), start_answer /
                      \*          start_error / request_axfr
                      \* "optrc": OPT records that set an extended RCODE (OptBuilder::set_rcode writes
                      \*          into the message header), with little room and a push limit
                      \* "all":   the calls of "small" and "reply" together (simulation)
                      \* "edge", "edgewide": after answer() and one filler record the message ends at
                      \*          one of the offsets around 0x3FFF / 0x4000; then every sequence of
                      \*          section changes, rewinds, a push limit and pushes of records whose
                      \*          names share suffixes, so that octets are cut back to exactly these
                      \*          offsets (failed push, rewind, backward conversion) and written again
          MaxOps,     \* number of calls in a behaviour
          CompSet,    \* compressors explored
          TgtSet      \* target kinds explored: "vec" (also stands for BytesMut), "array", "stream", "sarray"

VARIABLES hist,       \* the calls made so far with the projected state after each
          ambig       \* a push hit the limit exactly (both results admissible)
mcvars == <<vars, hist, ambig>>

--------------------------------------------------------------------------
(* the name universe: shared suffixes, case variants, root, a 255-octet name *)
Rep(n, x) == [i \in 1..n |-> x]
N_ex   == << <<101, 120>> >>                              \* ex.
N_a    == << <<97>>, <<101, 120>> >>                      \* a.ex.
N_A    == << <<65>>, <<69, 88>> >>                        \* A.EX.
N_b    == << <<98>>, <<97>>, <<101, 120>> >>              \* b.a.ex.
N_root == << >>
N_max  == << Rep(63, 109), Rep(63, 110), Rep(63, 111), Rep(58, 112), <<101, 120>> >>   \* 255 octets
Name(i) == CASE i = 1 -> N_a [] i = 2 -> N_A [] i = 3 -> N_b [] i = 4 -> N_ex
             [] i = 5 -> N_root [] i = 6 -> N_max

ASSUME WireLenAbs(N_max) = 255 /\ ValidAbs(N_max)

\* calls are uniform records [op, a, b, n]; a, b index the name universe
Op(o, a, b, n) == [op |-> o, a |-> a, b |-> b, n |-> n]
TTL == <<0, 0, 14, 16>>
ItemOf(c) ==
  CASE c.op = "q"   -> [k |-> "q", name |-> Name(c.a), qtype |-> 1, qclass |-> 1]
    [] c.op = "A"   -> [k |-> "r", name |-> Name(c.a), rtype |-> 1, class |-> 1, ttl |-> TTL,
                        rd |-> << [k |-> "o", o |-> <<192, 0, 2, c.n>>] >>]
    [] c.op = "NS"  -> [k |-> "r", name |-> Name(c.a), rtype |-> 2, class |-> 1, ttl |-> TTL,
                        rd |-> << [k |-> "n", n |-> Name(c.b), c |-> TRUE] >>]
    [] c.op = "MX"  -> [k |-> "r", name |-> Name(c.a), rtype |-> 15, class |-> 1, ttl |-> TTL,
                        rd |-> << [k |-> "o", o |-> EncU16(c.n)], [k |-> "n", n |-> Name(c.b), c |-> TRUE] >>]
    [] c.op = "DN"  -> [k |-> "r", name |-> Name(c.a), rtype |-> 39, class |-> 1, ttl |-> TTL,
                        rd |-> << [k |-> "n", n |-> Name(c.b), c |-> FALSE] >>]
    [] c.op = "TXT" -> [k |-> "r", name |-> Name(c.a), rtype |-> 16, class |-> 1, ttl |-> TTL,
                        rd |-> << [k |-> "f", n |-> c.n] >>]        \* n = 129 * m: m strings of 128 x 0x80
    [] c.op = "UNK" -> [k |-> "r", name |-> Name(c.a), rtype |-> 65280, class |-> 1, ttl |-> TTL,
                        rd |-> << [k |-> "f", n |-> c.n] >>]        \* opaque data, n x 0x80
    [] c.op = "opt" -> [k |-> "r", name |-> <<>>, rtype |-> 41, class |-> 1232, ttl |-> <<0, 0, 128, 0>>,
                        rd |-> << [k |-> "o", o |-> <<0, 10>> \o EncU16(c.n) \o Rep(c.n, 7)] >>]
    [] c.op = "optrc" -> [k |-> "r", name |-> <<>>, rtype |-> 41, class |-> 1232,
                        ttl |-> <<c.n \div 16, 0, 128, 0>>,
                        rd |-> << [k |-> "o", o |-> <<0, 10, 0, 4, 7, 7, 7, 7>>] >>]

Edge == Scenario \in {"edge", "edgewide"}
\* the offsets at which the filler record of an edge behaviour ends: the last
\* offset a pointer can express (0x3FFF), its neighbours, and a little more
EdgeEnds == IF Scenario = "edge" THEN 16382..16384 ELSE 16380..16386
\* root owner (1) + type, class, TTL, RDLENGTH (10) after the 12-octet header
EdgeFillers == {Op("UNK", 5, 0, e - 23) : e \in EdgeEnds}

Small == Scenario \in {"small", "all"}
Reply == Scenario \in {"reply", "all"}
OptRc == Scenario = "optrc"

Questions == IF Small
             THEN {Op("q", a, 0, 0) : a \in {1, 2, 5, 6}}
             ELSE IF Edge \/ Reply \/ OptRc THEN {}
             ELSE {Op("q", 3, 0, 0)}
Records ==
  IF Small THEN
    {Op("A", 1, 0, 1), Op("A", 6, 0, 2), Op("NS", 4, 3, 0), Op("NS", 2, 1, 0),
     Op("MX", 3, 2, 10), Op("DN", 4, 1, 0), Op("NS", 6, 6, 0), Op("TXT", 5, 0, 129)}
  ELSE IF Reply \/ OptRc THEN {Op("A", 1, 0, 1)}
  ELSE IF Edge THEN
    {Op("NS", 3, 1, 0),        \* b.a.ex. NS a.ex.
     Op("A", 1, 0, 1),         \* a.ex.
     Op("A", 3, 0, 2),         \* b.a.ex.
     Op("MX", 2, 3, 10)}       \* A.EX. MX b.a.ex.
  ELSE
    {Op("TXT", 4, 0, 16125),   \* ex. TXT, ends at 16151: the next name stays below 0x4000
     Op("UNK", 5, 0, 16357),   \* from 12: ends at 16380, the next name straddles 0x4000
     Op("TXT", 4, 0, 32895),   \* ends at 32921
     Op("UNK", 5, 0, 16216),   \* from 32921: ends at 49148, the next name straddles 0xC000
     Op("UNK", 5, 0, 32603),   \* from 32921: ends at 65535 exactly
     Op("UNK", 5, 0, 32604),   \* from 32921: 65536, one too many for a stream target
     Op("NS", 3, 1, 0), Op("A", 3, 0, 1), Op("MX", 2, 3, 10)}
Opts == IF Small THEN {Op("opt", 0, 0, 4)} ELSE {}
\* OPT records that set an extended RCODE: 3 (header bits only) and 19 (upper bits 1, lower bits 3);
\* the behaviours of this scenario are generated a second time with D_opt_rcode_sticks switched on
OptRcs == IF OptRc THEN {Op("optrc", 0, 0, 3), Op("optrc", 0, 0, 19)} ELSE {}
Gotos == IF Small THEN {Op("goto", 0, 0, s) : s \in 0..4}
         ELSE IF Reply THEN {Op("goto", 0, 0, 0), Op("goto", 0, 0, 4)}
         ELSE IF OptRc THEN {Op("goto", 0, 0, 4)}
         ELSE {Op("goto", 0, 0, 2), Op("goto", 0, 0, 3)}
\* header values: every bit set / a pattern with opcode 2, AA, RD, Z, CD, RCODE 3
HdrVal(n) == IF n = 1 THEN <<255, 255, 255, 255>> ELSE <<18, 52, 21, 83>>
Hdrs == IF Reply \/ OptRc THEN {Op("hdr", 0, 0, 1), Op("hdr", 0, 0, 2)} ELSE {}
\* requests: header (ID, opcode 4 + RD + other bits that must not be copied / a plain query) and questions
RqHdr(b) == IF b = 1 THEN <<171, 205, 167, 143>> ELSE <<0, 7, 0, 0>>
QItem(a) == [k |-> "q", name |-> Name(a), qtype |-> 1, qclass |-> 1]
RqQs(b) == IF b = 1 THEN << QItem(1) >> ELSE << QItem(2), QItem(1), QItem(3) >>
KindOf(a) == CASE a = 1 -> "answer" [] a = 2 -> "error" [] OTHER -> "axfr"
StartQs(c) == IF c.a = 3 THEN << [k |-> "q", name |-> Name(c.b), qtype |-> 252, qclass |-> 1] >>
              ELSE RqQs(c.b)
StartRq(c) == IF c.a = 3 THEN <<0, 0, 0, 0>> ELSE RqHdr(c.b)
Starts == IF Reply THEN {Op("start", a, b, 5) : a \in 1..2, b \in 1..2} \cup {Op("start", 3, 3, 0)}
          ELSE IF OptRc THEN {Op("start", 1, 1, 5)}
          ELSE {}
Limits == IF Small THEN {Op("limit", 0, 0, 60), Op("limit", 0, 0, 300), Op("clear", 0, 0, 0)}
          ELSE IF Reply \/ OptRc THEN {Op("limit", 0, 0, 40)}
          ELSE IF Edge THEN {Op("limit", 0, 0, 16405)}   \* the shortest record fits once more, the others do not
          ELSE {Op("limit", 0, 0, 16400)}
Others == IF Edge THEN {Op("rewind", 0, 0, 0)}
          ELSE {Op("rewind", 0, 0, 0), Op("finish", 0, 0, 0)}
Calls == Questions \cup Records \cup Opts \cup OptRcs \cup Gotos \cup Hdrs \cup Starts \cup Limits \cup Others

\* "sarray": a stream target over a fixed array with room for 34 octets of message
CapOf(t) == CASE t = "array" -> 512 [] t = "stream" -> 65535 [] t = "sarray" -> 34 [] OTHER -> Unbounded

--------------------------------------------------------------------------
\* (after a start_answer / request_axfr that failed the builder is gone: nothing to observe)
Proj == IF res' = "gone"
        THEN [res |-> "gone", len |-> 0, cnt |-> <<0, 0, 0, 0>>, acc |-> 0, shim |-> 0, id |-> 0, fl |-> 0]
        ELSE [res |-> res', len |-> buf'.len, cnt |-> HdrCounts(buf'),
              acc |-> Len(accepted'), shim |-> shim',
              id |-> BU16(buf', 0), fl |-> BU16(buf', 2)]

Step(c) ==
  /\ CASE c.op = "q"      -> PushQuestion(ItemOf(c))
       [] c.op = "opt"    -> PushOpt(ItemOf(c))
       [] c.op = "optrc"  -> PushOptRcode(ItemOf(c), c.n)
       [] c.op = "hdr"    -> SetHeader(HdrVal(c.n))
       [] c.op = "start"  -> StartReply(KindOf(c.a), StartRq(c), c.n, StartQs(c))
       [] c.op = "goto"   -> GotoSection(c.n)
       [] c.op = "rewind" -> Rewind
       [] c.op = "limit"  -> SetLimit(c.n)
       [] c.op = "clear"  -> ClearLimit
       [] c.op = "finish" -> Finish
       [] OTHER           -> PushRecord(ItemOf(c))
  /\ hist' = Append(hist, [c |-> c, p |-> Proj])
  /\ ambig' = (ambig \/ amb')

Init == /\ \E c \in CompSet : \E t \in TgtSet : Init0(c, t, CapOf(t))
        /\ hist = <<>>
        /\ ambig = FALSE

\* named so that -coverage reports each call kind
DoQuestion == \E c \in Questions : Step(c)
DoRecord   == \E c \in Records : Step(c)
DoFiller   == \E c \in EdgeFillers : Step(c)
DoOpt      == \E c \in Opts \cup OptRcs : Step(c)
DoHdr      == \E c \in Hdrs : Step(c)
DoStart    == \E c \in Starts : Step(c)
DoGoto     == \E c \in Gotos : Step(c)
DoRewind   == Step(Op("rewind", 0, 0, 0))
DoLimit    == \E c \in Limits : Step(c)
DoFinish   == Op("finish", 0, 0, 0) \in Others /\ Step(Op("finish", 0, 0, 0))

\* (calls that repeat what is in force already only multiply the behaviours)
EdgeUseful(c) == /\ c.op = "limit" => limit = NoLimit
                 /\ c.op = "goto" => c.n # section
\* an edge behaviour opens with answer() and one filler record
Next == /\ Len(hist) < MaxOps
        /\ IF Edge /\ Len(hist) = 0 THEN Step(Op("goto", 0, 0, 2))
           ELSE IF Edge /\ Len(hist) = 1 THEN DoFiller
           ELSE IF Edge THEN \E c \in Calls : EdgeUseful(c) /\ Step(c)
           ELSE (DoQuestion \/ DoRecord \/ DoOpt \/ DoHdr \/ DoStart \/ DoGoto \/ DoRewind \/ DoLimit \/ DoFinish)

Spec == Init /\ [][Next]_mcvars

NoopProp == FailedPushIsNoop

--------------------------------------------------------------------------
(* vacuity guard: the driver runs this "invariant" expecting TLC to refute  *)
(* it, which shows that behaviours exist in which a push fails on a         *)
(* compressing target after pointers were written and a later push          *)
(* succeeds again with a pointer -- the situation the properties are about. *)
NoPointerAfterFailure ==
  ~ /\ \E i \in 1..Len(hist) : hist[i].p.res = "err"
    /\ res = "ok"
    /\ \E e \in plog : e.at >= hist[Len(hist)].p.len - 40 /\ \E j \in 1..Len(hist) - 1 :
          hist[j].p.res = "err" /\ hist[j].p.len <= e.at

--------------------------------------------------------------------------
(* S->I: one case per maximal behaviour: configuration, calls, and the       *)
(* specification's projection after every call.                              *)
PushOps == {"q", "opt", "optrc", "A", "NS", "MX", "DN", "TXT", "UNK"}
CallJson(c) == IF c.op \in PushOps THEN [op |-> c.op, n |-> c.n, item |-> ItemOf(c)]
               ELSE IF c.op = "hdr" THEN [op |-> c.op, n |-> c.n, h |-> HdrVal(c.n)]
               ELSE IF c.op = "start" THEN [op |-> c.op, n |-> c.n, kind |-> KindOf(c.a),
                                            rq |-> StartRq(c), qs |-> StartQs(c)]
               ELSE [op |-> c.op, n |-> c.n]
Leaf == Len(hist) = MaxOps \/ section = 5
\* the property speaks about messages up to 65535 octets; a Vec target lets
\* a message grow beyond that, such behaviours are explored but not replayed
InRange == \A i \in 1..Len(hist) : hist[i].p.len <= 65535
Emit ==
  (Leaf /\ ~ambig /\ InRange) =>
    PrintT("CASE " \o ToJson(
      [in  |-> [comp |-> cfg.comp, tgt |-> cfg.tgt, cap |-> cfg.cap,
                calls |-> [i \in 1..Len(hist) |-> CallJson(hist[i].c)]],
       exp |-> [steps |-> [i \in 1..Len(hist) |->
                             <<hist[i].p.res, hist[i].p.len, hist[i].p.cnt[1], hist[i].p.cnt[2],
                               hist[i].p.cnt[3], hist[i].p.cnt[4], hist[i].p.acc, hist[i].p.shim,
                               hist[i].p.id, hist[i].p.fl>>],
                valid |-> ParseBack]]))
=============================================================================
