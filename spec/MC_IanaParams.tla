--------------------------- MODULE MC_IanaParams ---------------------------
(* TLC enumerates, for every registry type of IanaTables.tla, every code of  *)
(* the type's width (Codes: all of 0..max for the types in FullTypes and     *)
(* all 8/12-bit types; the boundary windows otherwise) and a text alphabet   *)
(* (every mnemonic in four capitalisations; the empty head, the generic      *)
(* prefix in three capitalisations and one mnemonic in two, each extended    *)
(* character by character over Alphabet up to MaxTail / SmallTail; boundary  *)
(* numbers), decides the laws of IanaParams.tla on its own writers / readers *)
(* in every state and emits one S->I case per state.                         *)
EXTENDS IanaTables, Json

CONSTANTS MaxTail,        \* tail length for the types in TailTypes
          SmallTail,      \* tail length for the other reading types
          TailTypes,      \* type ids
          FullTypes,      \* 16-bit types whose 65536 codes are all enumerated
          Emitting        \* TRUE: print CASE lines

VARIABLES ty, kind, code, text, hl, grow
vars == <<ty, kind, code, text, hl, grow>>

ASSUME TablesWellFormed
ASSUME ConstsResolvable

InWindow(c) == \/ c \in 0..300 \/ c \in 4090..4100 \/ c \in 20290..20294 \/ c \in 26940..26950
               \/ c \in 32760..32775 \/ c \in 49150..49155 \/ c \in 65270..65290 \/ c \in 65525..65535
               \/ c % 257 = 0

InCodes(id, c) == LET T == TI(id) IN
  c <= T.max /\ c \notin T.unsure /\ (T.max <= 4095 \/ id \in FullTypes \/ InWindow(c))
\* the codes are enumerated in chunks of 256 (one seed state each) so that
\* TLC's workers share the work
ChunkCodes(id, k) == {c \in (k * 256)..(k * 256 + 255) : InCodes(id, c)}
ChunkIds(id) == {k \in 0..(TI(id).max \div 256) : ChunkCodes(id, k) # {}}

ReadingTypes == {id \in TypeIds : Reads(TI(id))}

\* 0 1 2 3 5 6 + - NUL e-acute A blank
Alphabet == {48, 49, 50, 51, 53, 54, 43, 45, 0, 233, 65, 32}

SomeNamed(T) == CHOOSE c \in T.named : \A d \in T.named : c <= d
Heads(id) == LET T == TI(id) p == T.prefix IN
  {<<>>} \cup (IF p # <<>> THEN {p, Fold(p), MixCase(p)} ELSE {})
         \cup (IF T.named # {} THEN {T.nm[SomeNamed(T)]} \cup (IF T.style = "rcode" THEN {} ELSE {Fold(T.nm[SomeNamed(T)])})
               ELSE {})

\* texts that are not extended: every mnemonic in four capitalisations (also
\* the as-built spellings, which the ideal reader rejects), boundary numbers
Ten == <<52, 50, 57, 52, 57, 54, 55, 50, 57, 55>>                 \* 4294967297 = 2^32 + 1
Twenty == <<49, 56, 52, 52, 54, 55, 52, 52, 48, 55, 51, 55, 48, 57, 53, 53, 49, 54, 49, 55>> \* 2^64 + 1
Fixed(id) == LET T == TI(id) U == TD(id) p == T.prefix IN
  UNION {(IF T.style = "rcode" THEN {n} ELSE {n, Fold(n), UpCase(n), MixCase(n)}) : n \in {T.nm[c] : c \in T.named} \cup {U.nm[c] : c \in U.named}}
  \cup UNION {{h \o Dec(T.max), h \o Dec(T.max + 1), h \o Dec(T.max * 10), h \o Ten, h \o Twenty,
               h \o <<48, 48, 48, 48, 48, 48, 48, 48, 48, 48, 48, 55>>, h \o <<43>> \o Dec(T.max),
               h \o <<43, 48>>, h \o <<45, 48>>, h \o <<43, 43, 49>>, h \o <<49, 43>>}
              : h \in {<<>>, p, Fold(p)}}

TailLimit(id) == IF id \in TailTypes THEN MaxTail ELSE SmallTail

Init ==
  \/ /\ kind = "chunk" /\ ty \in TypeIds /\ code \in ChunkIds(ty)
     /\ text = <<>> /\ hl = 0 /\ grow = FALSE
  \/ /\ kind = "const" /\ ty = "const" /\ code = 0
     /\ text \in AllConsts /\ hl = 0 /\ grow = FALSE
  \/ /\ kind = "text" /\ ty \in ReadingTypes /\ code = 0
     /\ \/ text \in Fixed(ty) /\ grow = FALSE /\ hl = Len(text)
        \/ text \in Heads(ty) /\ grow = TRUE /\ hl = Len(text)

Extend == /\ kind = "text" /\ grow /\ Len(text) - hl < TailLimit(ty)
          /\ \E ch \in Alphabet : text' = Append(text, ch)
          /\ UNCHANGED <<ty, kind, code, hl, grow>>

Expand == /\ kind = "chunk"
          /\ \E c \in ChunkCodes(ty, code) : code' = c
          /\ kind' = "code"
          /\ UNCHANGED <<ty, text, hl, grow>>

Next == Extend \/ Expand
Spec == Init /\ [][Next]_vars

--------------------------------------------------------------------------
(* The laws, decided in every state *)
CodeLaws == kind = "code" => /\ RoundTrip(TI(ty), code)
                             /\ GenericAlways(TI(ty), code)
TextLaws == kind = "text" => /\ ReaderSound(TI(ty), text)
                             /\ ReaderDevOnlyPlus(TI(ty), text)
\* the as-built tables differ from the registry in exactly the rows the
\* deviations name
DevRows == kind = "code" =>
  /\ TD(ty).named = TI(ty).named
  /\ (HasName(TI(ty), code) /\ TD(ty).nm[code] # TI(ty).nm[code])
        => (<<ty, code>> \in {<<"Rtype", 23>>, <<"TsigRcode", 4>>})

--------------------------------------------------------------------------
(* S->I cases *)
Empty == <<>>
Opt(cond, rec) == IF cond THEN rec ELSE Empty

CodeExpT(T, id, c, dv) ==
  LET st == T.style
      macro == st \in {"prefix", "withdec", "decimal"} IN
  [int |-> c, alg |-> TRUE]
  @@ Opt(st # "newcode", [display |-> Display(T, c)])
  @@ Opt(macro \/ st = "rcode", [mn |-> MnJ(T, c)])
  @@ Opt(HasToken(T), [token |-> Token(T, c)])
  @@ Opt(HasSerde(T), [ser |-> SerHuman(T, c),
                       \* Deserialize from a JSON number: c, and c + max + 1 (never wrapped)
                       denum |-> <<Res(DeNum(T, c)), Res(DeNum(T, c + T.max + 1))>>])
  @@ Opt(macro, [rt |->
        Opt(st # "withdec", [display |-> Res(FromStr(T, Display(T, c), dv))])
        @@ Opt(HasToken(T), [token |-> Res(FromStr(T, Token(T, c), dv))])
        @@ [ser |-> Res(DeHuman(T, SerHuman(T, c), dv)),
            generic |-> Res(FromStr(T, Generic(T, c), dv))]
        @@ Opt(HasName(T, c), [mn |-> Res(FromMn(T, T.nm[c]))])])
  @@ Opt(st = "rcode", [rt |-> [display |-> Res(FromStr(T, Display(T, c), dv))]])
  @@ Opt(id = "Rtype", [glue |-> IsGlue(c)])
  @@ Opt(id = "RType", [lower |-> UsesLowercase(c, dv)])
  @@ Opt(id = "Rcode", [opt |-> c, tsig |-> c])
  @@ Opt(id = "OptRcode", [tsig |-> c, parts |-> <<c % 16, c \div 16, c >= 16>>])

CodeExp(id, c, dv) == CodeExpT(TT(id, dv), id, c, dv)
\* an optional registry row the library has not adopted: the observation must be
\* that of the type without or with that row (as specified or under one deviation)
CodeOpt(id, c) == {CodeExpT(T, id, c, {}) : T \in {TI(id), TA(id)}}
CodeOptDv(id, c, d) == {CodeExpT(T, id, c, {d}) : T \in {TI(id), TA(id)}} \ CodeOpt(id, c)
OptDevs(id, c) == {d \in Dev : CodeOptDv(id, c, d) # {}}

TextExp(id, t, dv) ==
  LET T == TT(id, dv) IN
  [fromstr |-> Res(FromStr(T, t, dv))]
  @@ Opt(T.style # "rcode", [mn |-> Res(FromMn(T, t))])
  @@ Opt(HasSerde(T) /\ T.id # "Rcode", [de |-> Res(DeStr(T, t, dv))])

DevMap(F(_)) == PairsToFun({<<d, F({d})>> : d \in {x \in Dev : F({x}) # F({})}})

EmitCase(inp, F(_)) ==
  LET dm == DevMap(F) base == [in |-> inp, exp |-> F({})]
  IN PrintT("CASE " \o ToJson(IF dm = <<>> THEN base ELSE base @@ [dev |-> dm]))

Emit ==
  Emitting =>
    CASE kind = "code" /\ Undecided(ty, code) ->
                LET ds == OptDevs(ty, code)
                    base == [in |-> [k |-> "code", ty |-> ty, c |-> code, opt |-> CodeOpt(ty, code),
                                     optdev |-> PairsToFun({<<d, CodeOptDv(ty, code, d)>> : d \in ds})],
                             exp |-> "conforms"]
                IN PrintT("CASE " \o ToJson(IF ds = {} THEN base
                            ELSE base @@ [dev |-> PairsToFun({<<d, [conforms_dev |-> d]>> : d \in ds})]))
      [] kind = "code" /\ ~Undecided(ty, code) ->
                          LET F(dv) == CodeExp(ty, code, dv)
                          IN EmitCase([k |-> "code", ty |-> ty, c |-> code], F)
      [] kind = "text" -> LET F(dv) == TextExp(ty, text, dv)
                          IN EmitCase([k |-> "text", ty |-> ty, t |-> text], F)
      [] kind = "chunk" -> TRUE
      [] kind = "const" -> LET k == text
                           IN PrintT("CASE " \o ToJson([in |-> [k |-> "const", ty |-> k[1], name |-> k[2]],
                                                          exp |-> [ok |-> CodeOfName(k[3], k[4])]]))
=============================================================================
