-------------------------- MODULE MC_HeaderAlgLaws --------------------------
(* The algebraic laws of the header / OPT header / extended RCODE layouts    *)
(* of HeaderAlg.tla, decided by TLC: one state per 16-bit flag word (all      *)
(* 65536), per 12-bit extended RCODE and per OPT header sample; the laws are  *)
(* invariants of these states.                                                 *)
EXTENDS HeaderAlg, FiniteSets

CONSTANTS Words,       \* the flag words enumerated
          PairWords    \* the (fewer) words on which the two-field laws are checked for all value pairs
VARIABLES kind, v
AllWords == 0..65535
\* every flag-bit combination with opcode / rcode 0, and the corner words
SomeWords == {0, 65535, 21845, 43690, 4660, 33152, 30735, 34800} \cup {2 ^ i : i \in 0..15}
              \cup {65535 - 2 ^ i : i \in 0..15}
lvars == <<kind, v>>

Vals(f) == 0..(Range(f) - 1)

OptSamples ==
  <<OptDefault, [i \in 1..9 |-> 255], <<0, 0, 41, 4, 208, 1, 0, 128, 0>>, <<0, 0, 41, 255, 255, 255, 255, 127, 255>>,
    <<7, 1, 2, 3, 4, 5, 6, 7, 8>>>>

\* (the words are enumerated along 256 chains so that TLC's workers share them)
LInit == \/ kind = "word" /\ v \in 0..255 /\ v \in Words
         \/ kind = "rcode" /\ v \in 0..15
         \/ kind = "opt" /\ v = 1
LWord == kind = "word" /\ v + 256 \in Words /\ v' = v + 256 /\ UNCHANGED kind
LRcode == kind = "rcode" /\ v + 16 <= 4095 /\ v' = v + 16 /\ UNCHANGED kind
LOpt == kind = "opt" /\ v < 5 /\ v' = v + 1 /\ UNCHANGED kind
LNext == LWord \/ LRcode \/ LOpt
LSpec == LInit /\ [][LNext]_lvars

\* --- one field
GetPut(w) == \A f \in FieldNames : \A x \in Vals(f) : GetW(PutW(w, f, x), f) = x
PutGet(w) == \A f \in FieldNames : PutW(w, f, GetW(w, f)) = w
PutPut(w) == \A f \in FieldNames : \A x \in {0, Range(f) - 1} : \A y \in Vals(f) :
               PutW(PutW(w, f, x), f, y) = PutW(w, f, y)
InRange(w) == \A f \in FieldNames : \A x \in Vals(f) : PutW(w, f, x) \in 0..65535
\* --- two fields
Indep(w) == \A f \in FieldNames : \A g \in FieldNames \ {f} : \A x \in {0, Range(f) - 1} :
              GetW(PutW(w, f, x), g) = GetW(w, g)
IndepAll(w) == \A f \in FieldNames : \A g \in FieldNames \ {f} : \A x \in Vals(f) :
              GetW(PutW(w, f, x), g) = GetW(w, g)
Commute(w) == \A f \in FieldNames : \A g \in FieldNames \ {f} : \A x \in Vals(f) : \A y \in Vals(g) :
              PutW(PutW(w, f, x), g, y) = PutW(PutW(w, g, y), f, x)
\* --- the word is the product of its fields
RECURSIVE SumFields(_, _)
SumFields(w, fs) ==
  IF fs = {} THEN 0 ELSE LET f == CHOOSE f \in fs : TRUE IN GetW(w, f) * Shift(f) + SumFields(w, fs \ {f})
Extensional(w) == SumFields(w, FieldNames) = w
\* --- the two transcriptions of the layout agree: the value of a field is
\* the number formed by its (octet, bit) positions
RECURSIVE BitsValue(_, _)
BitsValue(h, ps) ==     \* positions are contiguous inside one octet here
  IF ps = {} THEN 0
  ELSE LET lo == CHOOSE p \in ps : \A q \in ps : q[2] >= p[2]
       IN Bit(h[lo[1]], lo[2]) + 2 * BitsValue(h, ps \ {lo})
LayoutsAgree(w) ==
  LET h == PutWord(HdrZero, w) IN \A f \in FieldNames : HGet(h, f) = BitsValue(h, Where[f])
\* --- flags
FlagsLaws(w) ==
  LET h == PutWord(HdrZero, w)  m == FlagsMask(h) IN
  /\ m \in 0..127
  /\ PutFlags(h, m) = h
  /\ \A m2 \in {0, 127, 85, 42} :
       /\ FlagsMask(PutFlags(h, m2)) = m2
       /\ HGet(PutFlags(h, m2), "z") = HGet(h, "z")
       /\ HGet(PutFlags(h, m2), "opcode") = HGet(h, "opcode")
       /\ HGet(PutFlags(h, m2), "rcode") = HGet(h, "rcode")
  /\ Len(FlagTokens(m)) = HGet(h, "qr") + HGet(h, "aa") + HGet(h, "tc") + HGet(h, "rd")
                          + HGet(h, "ra") + HGet(h, "ad") + HGet(h, "cd")

WordLaws ==
  kind = "word" =>
    /\ GetPut(v) /\ PutGet(v) /\ PutPut(v) /\ InRange(v) /\ Indep(v)
    /\ Extensional(v) /\ LayoutsAgree(v) /\ FlagsLaws(v)
PairLaws == (kind = "word" /\ v \in PairWords) => (IndepAll(v) /\ Commute(v))

\* --- the positions partition the 96 header bits / the OPT header fields are disjoint
Partition ==
  /\ UNION {Where[f] : f \in DOMAIN Where} = AllBits
  /\ \A f \in DOMAIN Where : \A g \in DOMAIN Where \ {f} : Where[f] \cap Where[g] = {}
  /\ \A f \in FieldNames : Cardinality(Where[f]) = Layout[f].w
  /\ \A f \in DOMAIN OWhere : \A g \in DOMAIN OWhere \ {f} : OWhere[f] \cap OWhere[g] = {}

\* --- RFC 6891 6.1.3
RcodeLaws ==
  kind = "rcode" =>
    /\ RcJoin(RcLow(v), RcExt(v)) = v
    /\ RcLow(v) \in 0..15 /\ RcExt(v) \in 0..255
    /\ RcIsExt(v) <=> RcExt(v) # 0
    /\ RcIsExt(v) <=> ~RcodeChecked(v)
    /\ OptRcodeChecked(v, {}) /\ ~OptRcodeChecked(v + 4096, {}) /\ ~OptRcodeChecked(v + 61440, {})
    /\ \A h4 \in {0, 15, 165} :
         LET h == PutWord(HdrZero, h4 * 256 + RcLow(v)) IN
         /\ MsgRcode(h, <<OPutExt(OptDefault, RcExt(v))>>) = v
         /\ MsgRcode(h, <<>>) = RcLow(v)
         /\ MsgRcode(h, <<>>) < 16
RcodePartsInverse ==      \* from_parts then to_parts, all 16 x 256 pairs
  kind = "rcode" => (RcLow(RcJoin(v % 16, v \div 16)) = v % 16 /\ RcExt(RcJoin(v % 16, v \div 16)) = v \div 16)

\* --- OPT header fields are independent
OptLaws ==
  kind = "opt" =>
    LET o == OptSamples[v] IN
    /\ \A x \in {0, 1, 512, 1232, 65535} :
         /\ OUdp(OPutUdp(o, x)) = x /\ OSameOutside(o, OPutUdp(o, x), OWhere.udp)
    /\ \A x \in {0, 1, 128, 255} :
         /\ OExt(OPutExt(o, x)) = x /\ OSameOutside(o, OPutExt(o, x), OWhere.ext)
         /\ OVer(OPutVer(o, x)) = x /\ OSameOutside(o, OPutVer(o, x), OWhere.ver)
    /\ \A x \in {0, 1} :
         /\ ODo(OPutDo(o, x)) = x /\ OSameOutside(o, OPutDo(o, x), OWhere.do)
         /\ OZ(OPutDo(o, x)) = OZ(o)
    /\ OPutUdp(OPutDo(o, 1), 7) = OPutDo(OPutUdp(o, 7), 1)
    /\ OPutExt(OPutVer(o, 9), 3) = OPutVer(OPutExt(o, 3), 9)
    /\ OUdp(OptDefault) = 0 /\ OExt(OptDefault) = 0 /\ OVer(OptDefault) = 0 /\ ODo(OptDefault) = 0
    /\ OptDefault[1] = 0 /\ OptDefault[2] * 256 + OptDefault[3] = 41
=============================================================================
