---------------------------- MODULE MC_ServerEdns ----------------------------
(* Exhaustive exploration of the middleware machine of ServerEdns.tla over  *)
(* request / configuration / service grids; every final state is also one   *)
(* generated case for the real stack (Emit).  Grid "decide": the decision    *)
(* tables over request shapes; "size": negotiated sizes, truncation,         *)
(* reserved octets and response layouts around every boundary; "util": the   *)
(* laws of the util.rs helpers, each evaluation a case of its own.           *)
EXTENDS ServerEdns, TLC, Json

CONSTANTS Grid, Thorough

\* ---- option lists
KA0 == Option(KeepAlive, 0, 0)
KA2 == Option(KeepAlive, 2, 77)
KA1 == Option(KeepAlive, 1, 5)        \* malformed: one data octet
KA3 == Option(KeepAlive, 3, 9)        \* malformed: three
PAD == Option(Padding, 4, 0)
UNK == Option(65001, 2, 513)
OptLists == {<<>>, <<KA0>>, <<KA2>>, <<KA1>>, <<PAD>>, <<UNK, KA2>>, <<KA1, KA2>>, <<KA0, KA2>>, <<KA3>>, <<UNK>>}
Sizes == IF Thorough THEN {0, 1, 511, 512, 513, 1231, 1232, 1233, 4096, 65535}
         ELSE {0, 511, 512, 1232, 4096}
ReqOpts == {OptItem(s, v, s = 4096, 0, l) : s \in Sizes, v \in {0, 1}, l \in OptLists}
              \cup {OptItem(1232, 255, TRUE, 0, <<>>)}
DefOpt == OptItem(1232, 0, FALSE, 0, <<>>)

AddsAll ==
  {<<>>, <<AItem>>, <<BadOpt>>, <<BadOpt, DefOpt>>, <<DefOpt, BadOpt>>}
  \cup {<<o>> : o \in ReqOpts} \cup {<<AItem, o>> : o \in ReqOpts}
  \cup {<<o, AItem>> : o \in ReqOpts} \cup {<<o, DefOpt>> : o \in ReqOpts}
AddsFew ==
  {<<>>, <<AItem>>, <<DefOpt>>, <<DefOpt, DefOpt>>, <<BadOpt>>,
   <<OptItem(1232, 1, FALSE, 0, <<>>)>>, <<OptItem(4096, 0, TRUE, 0, <<KA2>>)>>,
   <<AItem, OptItem(512, 0, FALSE, 0, <<KA0>>)>>}

Transports ==
  {[udp |-> TRUE, hint |-> h, idle |-> NoV] : h \in {NoV, 100, 512, 1232, 4096}}
  \cup {[udp |-> FALSE, hint |-> NoV, idle |-> i] : i \in {NoV, 300, 65535, TooBig}}
\* (rd, qr, opcode, qd)
HdrAll == {<<FALSE, FALSE, 0, 1>>, <<TRUE, FALSE, 0, 1>>, <<FALSE, TRUE, 0, 1>>,
           <<FALSE, FALSE, 1, 1>>, <<FALSE, FALSE, 4, 1>>, <<FALSE, FALSE, 0, 0>>,
           <<FALSE, FALSE, 0, 2>>, <<TRUE, FALSE, 1, 2>>, <<FALSE, FALSE, 5, 2>>,
           <<TRUE, FALSE, 2, 0>>}
HdrFew == {<<FALSE, FALSE, 0, 1>>, <<TRUE, FALSE, 0, 1>>}

Req(t, h, a) == [udp |-> t.udp, hint |-> t.hint, idle |-> t.idle, id |-> 4660,
                 rd |-> h[1], qr |-> h[2], opcode |-> h[3], qd |-> h[4], adds |-> a]
CfgAll == {[strict |-> TRUE, eon |-> TRUE], [strict |-> FALSE, eon |-> TRUE], [strict |-> TRUE, eon |-> FALSE]}
CfgFew == {[strict |-> TRUE, eon |-> TRUE], [strict |-> TRUE, eon |-> FALSE]}

Svc(kind, rc, scr, body, adds) == [kind |-> kind, rc |-> rc, scr |-> scr, body |-> body, adds |-> adds]
SvcOpt == OptItem(1400, 0, TRUE, 0, <<PAD>>)
SvcFew == {Svc("ok", 0, FALSE, <<4>>, <<>>), Svc("ok", 3, FALSE, <<4>>, <<AItem, SvcOpt>>)}
SvcAll == SvcFew \cup {Svc("err", 0, FALSE, <<>>, <<>>), Svc("ok", 0, TRUE, <<4, 0>>, <<SvcOpt, AItem>>)}

\* ---- grid "decide": two sub-grids (everything x few, few x everything)
DecideA == {<<Req(t, h, a), c, s>> : t \in Transports, h \in HdrAll, a \in AddsFew, c \in CfgAll, s \in SvcAll}
DecideB == {<<Req(t, h, a), c, s>> : t \in Transports, h \in HdrFew,
                                     a \in AddsAll, c \in (IF Thorough THEN CfgAll ELSE CfgFew), s \in SvcFew}

\* ---- grid "size"
BigOpt == OptItem(1232, 0, TRUE, 1, <<Option(Padding, 600, 0)>>)
SvcAddsSz == {<<>>, <<DefOpt>>, <<AItem, SvcOpt>>, <<DefOpt, AItem>>, <<AItem>>, <<BigOpt>>}
Lens == {100, 511, 512, 513, 1231, 1232, 1233, 4095, 4096, 4097, 5000}
        \cup (IF Thorough THEN {531, 532, 1221, 1222, 1226, 1227, 4085, 4086, 65535} ELSE {})
AddsLen(a) == SumSeq([i \in 1..Len(a) |-> ItemLen(a[i])])
\* a service answer of exactly L octets: one filler record
SvcOfLen(L, a, scr) == Svc("ok", IF scr THEN 3 ELSE 0, scr, <<L - 12 - QLen - AddsLen(a) - 11>>, a)
SzReqAdds == {<<>>} \cup {<<OptItem(s, 0, FALSE, 0, <<>>)>> : s \in {0, 512, 513, 1232, 4096, 65535}}
SzTransports ==
  {[udp |-> TRUE, hint |-> h, idle |-> NoV] : h \in {NoV, 512, 1232, 4096}}
  \cup {[udp |-> FALSE, hint |-> NoV, idle |-> i] : i \in {NoV, 300}}
SizeA == {<<Req(t, <<TRUE, FALSE, 0, 1>>, a), c, SvcOfLen(L, sa, scr)>> :
            t \in SzTransports, a \in SzReqAdds, c \in CfgFew, L \in Lens, sa \in SvcAddsSz, scr \in BOOLEAN}
\* the 65535-octet ceiling of a stream target: the keepalive option / the
\* OPT record may not fit any more
SizeB == {<<Req([udp |-> FALSE, hint |-> NoV, idle |-> 300], <<TRUE, FALSE, 0, 1>>, <<DefOpt>>),
            [strict |-> TRUE, eon |-> TRUE], SvcOfLen(L, sa, FALSE)>> :
            L \in {65517, 65518, 65519, 65524, 65525, 65529, 65530, 65535}, sa \in {<<>>, <<SvcOpt>>, <<AItem, SvcOpt>>}}
SizeG == {x \in SizeA \cup SizeB : x[3].body[1] >= 0}

Cases == IF Grid = "decide" THEN DecideA \cup DecideB ELSE SizeG

Init == /\ \E x \in Cases : req = x[1] /\ cfg = x[2] /\ svc = x[3]
        /\ pc = "mand_pre" /\ hint = req.hint /\ reserved = 0
        /\ seen = NotSeen /\ by = "nobody" /\ resp = ErrMsg
Spec == Init /\ [][Next]_vars

DevNames == {"D_error_opt_no_edns", "D_add_opt_not_atomic"}
PRun(dv) == [Run(dv, cfg, req, svc) EXCEPT !.by = IF @ = "service" THEN @ ELSE "mw"]
DevMap ==
  LET one(d) == PRun({d})
      ideal  == PRun({})
      diff   == {d \in DevNames : one(d) # ideal}
  IN [d \in diff |-> one(d)]

Emit ==
  Done => PrintT("CASE " \o ToJson([in |-> [k |-> "stack", req |-> req, cfg |-> cfg, svc |-> svc],
                                    exp |-> PRun({}),
                                    dev |-> DevMap]))
=============================================================================
