CONSTANTS
  Dev = {}
  Mode = "priv"
  MaxLines = 4
  MaxSyms = 0
  MaxAdds = 0
  LineSet = "full"
  TagKeyLen = 0
  RsaFields <- RsaFields2
SPECIFICATION Spec
INVARIANT PrivMachineIsGrammar
INVARIANT PrivAsBuiltMachineIsGrammar
INVARIANT PrivIncremental
INVARIANT PrivRoundTrip
INVARIANT PrivBlankIrrelevant
PROPERTY PrivErrSticky
CHECK_DEADLOCK FALSE
