---------------------------- MODULE MC_ServerUtil ----------------------------
(* The laws of the util.rs helpers (ServerEdns.tla, P4) over an enumerated  *)
(* argument space; every evaluation is one case for the real functions.     *)
EXTENDS ServerEdns, TLC, Json

PAD == Option(Padding, 4, 0)
KA2 == Option(KeepAlive, 2, 77)
UNK == Option(65001, 2, 513)
DefOpt == OptItem(1232, 0, FALSE, 0, <<>>)
RichOpt == OptItem(1400, 0, TRUE, 1, <<PAD, UNK>>)      \* extended RCODE bits set (BADCOOKIE = 16 + 7)

Hdrs == {<<FALSE, FALSE, 0, 1>>, <<TRUE, FALSE, 0, 1>>, <<FALSE, TRUE, 0, 1>>, <<TRUE, FALSE, 1, 1>>,
         <<FALSE, FALSE, 4, 1>>, <<FALSE, FALSE, 0, 0>>, <<TRUE, FALSE, 0, 2>>, <<FALSE, FALSE, 15, 1>>}
ReqAdds == {<<>>, <<AItem>>, <<DefOpt>>, <<AItem, RichOpt>>, <<BadOpt>>, <<DefOpt, DefOpt>>, <<BadOpt, DefOpt>>}
Reqs == {[udp |-> TRUE, hint |-> NoV, idle |-> NoV, id |-> i, rd |-> h[1], qr |-> h[2],
          opcode |-> h[3], qd |-> h[4], adds |-> a] : i \in {0, 4660, 65535}, h \in Hdrs, a \in ReqAdds}
ErrCases == {[k |-> "err", req |-> r, rc |-> rc] : r \in Reqs, rc \in {0, 1, 2, 3, 4, 5, 9, 15, 16, 23, 4095}}

Layouts == {<<>>, <<AItem>>, <<DefOpt>>, <<RichOpt>>, <<AItem, RichOpt>>, <<RichOpt, AItem>>,
            <<AItem, DefOpt, AItem>>}
Msgs == {Msg(7, TRUE, op, TRUE, tc, 7, 1, b, a) : op \in {0, 4}, tc \in BOOLEAN, b \in {<<>>, <<3, 0>>}, a \in Layouts}
News == {<<PAD>>, <<KA2>>, <<UNK, PAD>>, <<Option(Padding, 40, 0)>>, <<>>}
Caps(m) == {NoV} \cup {MsgLen(m) + k : k \in {1, 5, 8, 12, 19, 50}}
AddCases == {[k |-> "add", m |-> m, new |-> n, cap |-> c] : m \in Msgs, n \in News, c \in UNION {Caps(x) : x \in Msgs}}
AddCasesOK == {c \in AddCases : c.cap \in Caps(c.m)}
RmLayouts == Layouts \cup {<<DefOpt, RichOpt>>, <<AItem, DefOpt, AItem, RichOpt>>}
RmCases == {[k |-> "rm", m |-> Msg(7, TRUE, 0, TRUE, FALSE, 3, 1, b, a)] : b \in {<<>>, <<3, 0>>}, a \in RmLayouts}

VARIABLE c
\* (the machine's variables of ServerEdns.tla are not used here)
UInit == /\ c \in ErrCases \cup AddCasesOK \cup RmCases
         /\ pc = "util" /\ req = 0 /\ cfg = 0 /\ svc = 0 /\ hint = 0 /\ reserved = 0
         /\ seen = NotSeen /\ by = "nobody" /\ resp = ErrMsg
UNext == UNCHANGED <<vars, c>>
USpec == UInit /\ [][UNext]_<<vars, c>>

Laws ==
  CASE c.k = "err" -> ErrLaw(c.req, c.rc)
    [] c.k = "add" -> AddLaw(c.m, c.new, c.cap)
    [] c.k = "rm"  -> RemoveLaw(c.m)

Out(dv) ==
  CASE c.k = "err" -> CanonMsg(ErrResp(dv, c.req, c.rc))
    [] c.k = "add" -> LET r == AddOptions(dv, c.m, c.new, IF c.cap = NoV THEN MaxMsg ELSE c.cap)
                      IN [ok |-> r.ok, m |-> CanonMsg(r.m)]
    [] c.k = "rm"  -> [ok |-> TRUE, m |-> CanonMsg(RemoveOpt(c.m))]
DevNames == {"D_error_opt_no_edns", "D_add_opt_not_atomic"}
DevMap == LET diff == {d \in DevNames : Out({d}) # Out({})} IN [d \in diff |-> Out({d})]
Emit == PrintT("CASE " \o ToJson([in |-> c, exp |-> Out({}), dev |-> DevMap]))
=============================================================================
