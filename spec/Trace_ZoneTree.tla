---------------------------- MODULE Trace_ZoneTree ----------------------------
(* I->S: a run recorded from a real ZoneTree (one event per public call,    *)
(* all arguments and the result logged) must be a behaviour of              *)
(* ZoneTree.tla; in addition every recorded find_zone / get_zone / iter     *)
(* result must be what the DECLARATIVE side (LongestMatch, Lookup, the set  *)
(* of zones) yields for the tree the history produced -- the property       *)
(* itself on names and depths far beyond TLC's constants.                   *)
EXTENDS ZoneTree, Json, IOUtils

TRec == ndJsonDeserialize(IOEnv.TRACE)

VARIABLE l
tvars == <<vars, l>>
Ev == TRec[l]
Step(A) == l <= Len(TRec) /\ l' = l + 1 /\ A /\ UNCHANGED <<nops, res>>

TInit == Init /\ l = 1

T_Reset == Step(Ev.ev = "reset" /\ tree' = EmptyTree)
T_Insert ==
  Step(/\ Ev.ev = "insert"
       /\ LET r == InsertOp(tree, ZoneOf(Ev.id, Ev.c, Ev.a))
          IN r.res = Ev.res /\ tree' = r.t)
T_Remove ==
  Step(/\ Ev.ev = "remove"
       /\ LET r == RemoveOp(tree, Ev.c, Ev.a, Dev)
          IN r.res = Ev.res /\ tree' = r.t)
T_Get ==
  Step(/\ Ev.ev = "get"
       /\ GetOp(tree, Ev.c, Ev.a).id = Ev.res
       /\ Lookup(tree, Ev.c, Ev.a).id = Ev.res
       /\ UNCHANGED tree)
T_Find ==
  Step(/\ Ev.ev = "find"
       /\ FindOp(tree, Ev.c, Ev.a).id = Ev.res
       /\ LongestMatch(tree, Ev.c, Ev.a).id = Ev.res
       /\ UNCHANGED tree)
T_Iter ==
  Step(/\ Ev.ev = "iter"
       /\ LET s == IterOp(tree)
          IN /\ Len(s) = Ev.n
             /\ {s[i].id : i \in DOMAIN s} = SeqSet(Ev.ids)
       /\ Ev.n = Cardinality(Zones(tree))
       /\ SeqSet(Ev.ids) = {tree[n].id : n \in Zones(tree)}
       /\ UNCHANGED tree)

TNext == T_Reset \/ T_Insert \/ T_Remove \/ T_Get \/ T_Find \/ T_Iter
TSpec == TInit /\ [][TNext]_tvars

TreeOK == ParentClosed(tree)

Accepted ==
  LET d == TLCGet("stats").diameter
  IN IF d = Len(TRec) + 1 THEN TRUE
     ELSE /\ PrintT("TRACE_REJECTED " \o ToJson([matched |-> d - 1, total |-> Len(TRec),
                      event |-> IF d <= Len(TRec) THEN TRec[d] ELSE [ev |-> "none"]]))
          /\ FALSE
=============================================================================
