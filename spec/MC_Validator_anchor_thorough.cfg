CONSTANTS
  Dev = {}
  Mut = {}
  AdvOn = {"ANS", "DS", "DNSKEY"}
  AnchorForms = {"ds", "add_u8", "reader", "multi", "both", "none", "elsewhere"}
  Cfgs = {"default"}
  MaxRuns = 1
  EntQKinds = {"positive"}
  Budget = 1
  Shapes = {"secure3", "insecure3"}
  Denials = {"nsec", "nsec3"}
  QKinds = {"positive", "nxdomain"}
  AdvActs = {"DropRrsig", "DropRrset", "Expire", "AddCollidingKey", "AddExtraDs", "CorruptSigOctets", "AddBadSig", "CorruptKey", "CorruptDs", "StripProof", "SigsFirst", "Duplicate", "ZeroCounts"}
SPECIFICATION Spec
VIEW View
INVARIANT Soundness
INVARIANT HonestSecure
INVARIANT InsecureNotBogus
INVARIANT WithinAllowed
INVARIANT NoPanic
INVARIANT Terminates
INVARIANT CacheTransparent
INVARIANT NoAnchorNotSecure
INVARIANT LimitsEnforced
INVARIANT Emit
CHECK_DEADLOCK TRUE
