------------------------ MODULE Trace_ValidatorConc ------------------------
(* I->S for X13: recorded runs of truly concurrent validations on one       *)
(* shared ValidationContext (three threads, a clock thread) must be         *)
(* behaviours of ValidatorConc.tla (Atomic = FALSE).                        *)
(*                                                                          *)
(* The events are taken at the boundary, under one lock (a total order):    *)
(*   round               a fresh context                                    *)
(*   start i q k         validate_msg is about to be called (the answer,    *)
(*                       rewritten by k, was made at this moment)           *)
(*   issue i t z         the validator called the upstream                  *)
(*   adv i k             the upstream decided to rewrite that answer (made  *)
(*                       at this moment)                                    *)
(*   recv i              the answer is handed to the validator              *)
(*   done i v            validate_msg returned verdict v                    *)
(*   tick                both clocks moved                                  *)
(* What a validation does between two of its own events - cache look-ups,   *)
(* verification, node creation, cache inserts - is hidden and happens at    *)
(* some moment between them: every process action is a hidden step; the     *)
(* events only synchronise (an `issue` must find the process waiting for    *)
(* exactly that fetch, the answer is consumed only after `recv`, `done`     *)
(* must find the verdict).  The recorder's clock thread steps the clocks    *)
(* only while no validation is between a start / recv and its next issue /  *)
(* done (the validator reads the clocks several times within one            *)
(* computation).  The properties of ValidatorConc.tla are                   *)
(* evaluated as invariants on every state of the validated run.             *)
EXTENDS MC_ValidatorConc, Json

Rec == ndJsonDeserialize(IOEnv.TRACE)
VARIABLES l,      \* next event
          seen,   \* the pending fetch of process i was observed (issue)
          avail,  \* its answer was handed over (recv)
          rep     \* the verdict of process i was observed (done)
tvars == <<l, seen, avail, rep, now, cache, p, budget, cur>>
mvars == <<now, cache, p, budget, cur>>
F == [i \in Procs |-> FALSE]

IsEv(e) == l <= Len(Rec) /\ Rec[l].ev = e /\ l' = l + 1

TInit == l = 1 /\ seen = F /\ avail = F /\ rep = F /\ Init

T_Round == /\ IsEv("round")
           /\ now' = 0 /\ cache' = [z \in Zones |-> NoNode] /\ p' = [i \in Procs |-> Idle]
           /\ budget' = Budget /\ cur' = 0 /\ seen' = F /\ avail' = F /\ rep' = F
T_Start == /\ IsEv("start")
           /\ LET i == Rec[l].i IN
              /\ p[i].pc = "idle" \/ rep[i]
              /\ Start(i, Rec[l].q, Rec[l].k)
              /\ rep' = [rep EXCEPT ![i] = FALSE]
           /\ UNCHANGED <<seen, avail>>
T_Issue == /\ IsEv("issue")
           /\ LET i == Rec[l].i IN
              /\ p[i].pc = "wire" /\ ~seen[i]
              /\ p[i].pend = [t |-> Rec[l].t, z |-> Rec[l].z]
              /\ seen' = [seen EXCEPT ![i] = TRUE]
           /\ UNCHANGED <<avail, rep, now, cache, p, budget, cur>>
T_Adv == /\ IsEv("adv")
         /\ LET i == Rec[l].i IN seen[i] /\ ~avail[i] /\ Adv(i, Rec[l].k)
         /\ UNCHANGED <<seen, avail, rep>>
T_Recv == /\ IsEv("recv")
          /\ LET i == Rec[l].i IN
             /\ seen[i] /\ ~avail[i] /\ p[i].pc = "wire"
             /\ avail' = [avail EXCEPT ![i] = TRUE]
          /\ UNCHANGED <<seen, rep, now, cache, p, budget, cur>>
T_Done == /\ IsEv("done")
          /\ LET i == Rec[l].i IN
             /\ p[i].pc = "done" /\ ~rep[i] /\ p[i].verdict = Rec[l].v
             /\ rep' = [rep EXCEPT ![i] = TRUE]
          /\ UNCHANGED <<seen, avail, now, cache, p, budget, cur>>
T_Tick == IsEv("tick") /\ Tick /\ UNCHANGED <<seen, avail, rep>>
T_Hidden == \E i \in Procs :
              /\ p[i].pc = "wire" => avail[i]
              /\ ProcNext(i)
              /\ IF p[i].pc = "wire"
                 THEN seen' = [seen EXCEPT ![i] = FALSE] /\ avail' = [avail EXCEPT ![i] = FALSE]
                 ELSE UNCHANGED <<seen, avail>>
              /\ UNCHANGED <<l, rep>>

TNext == T_Round \/ T_Start \/ T_Issue \/ T_Adv \/ T_Recv \/ T_Done \/ T_Tick \/ T_Hidden
TSpec == TInit /\ [][TNext]_tvars

\* the furthest event any explored behaviour has consumed
Far == TLCSet(7, IF TLCGet(7) < l THEN l ELSE TLCGet(7))
ASSUME TLCSet(7, 0)
Accepted ==
  LET m == TLCGet(7)
  IN IF m = Len(Rec) + 1 THEN TRUE
     ELSE /\ PrintT("TRACE_REJECTED " \o ToJson([reached |-> m, total |-> Len(Rec),
                        event |-> IF m <= Len(Rec) /\ m >= 1 THEN Rec[m] ELSE [ev |-> "-"]]))
          /\ FALSE
=============================================================================
