CONSTANTS
  Dev = {}
  MaxReq = 2
  TickMs = 10000
  StConfs <- St_3_2
  RqCap = 8
  ChanCap = 8
  MaxFrames = 0
  EndKinds = {}
  Frames = {}
  DCap = 8
  XLen = 12
  FlowQs = {1, 501}
  Bursts = {1, 3, 10, 12}
  Wants = {1, 2, 9}
  FlowMaxOps = 5
  FlowDev = {}
SPECIFICATION MacroFSpec
VIEW FlowView
ACTION_CONSTRAINT EmitFlow
INVARIANT FlowPrefix
INVARIANT FlowComplete
INVARIANT FlowBounded
INVARIANT FlowSettled
INVARIANT FlowStream
CHECK_DEADLOCK FALSE
