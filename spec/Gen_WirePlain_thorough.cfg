CONSTANTS
  Dev = {}
  Big = TRUE
SPECIFICATION Spec
INVARIANT PlainIsUncompressed
INVARIANT PlainImpliesSkip
INVARIANT PlainRecordAgrees
INVARIANT NewRuleStricterP
INVARIANT EmitCodec
CHECK_DEADLOCK FALSE
