CONSTANTS
  Dev = {}
  Big = TRUE
SPECIFICATION Spec
INVARIANT EmitCodec
CHECK_DEADLOCK FALSE
