CONSTANTS
  Dev = {}
  Tier = 2
  Big = 300
SPECIFICATION Spec
INVARIANT LawLabel
INVARIANT LawName
INVARIANT LawCharStr
INVARIANT LawRdata
INVARIANT LawRecord
INVARIANT LawRecordHash
INVARIANT LawTransitive
INVARIANT EmitLabel
INVARIANT EmitName
INVARIANT EmitCharStr
INVARIANT EmitRdata
INVARIANT EmitRecord
CHECK_DEADLOCK FALSE
