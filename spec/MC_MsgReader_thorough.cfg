CONSTANTS
  Dev = {}
  MaxOps = 10
  MaxViewOps = 8
  ManyViews = TRUE
SPECIFICATION MCSpec
VIEW NoHistView
INVARIANT Idempotent
INVARIANT ViewIdempotent
INVARIANT ViewFilters
INVARIANT NoUndecided
INVARIANT PosWithin
INVARIANT CountBound
INVARIANT ReturnedNamesValid
PROPERTY PosMonotone
PROPERTY Fused
PROPERTY DataErrorGoesOn
CHECK_DEADLOCK FALSE
