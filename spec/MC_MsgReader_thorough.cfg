CONSTANTS
  Dev = {}
  MaxOps = 10
SPECIFICATION MCSpec
VIEW NoHistView
INVARIANT Idempotent
INVARIANT PosWithin
INVARIANT CountBound
INVARIANT ReturnedNamesValid
PROPERTY PosMonotone
PROPERTY Fused
CHECK_DEADLOCK FALSE
