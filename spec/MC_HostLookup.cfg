CONSTANTS
  Dev = {}
  MaxA = 2
  Max6 = 1
SPECIFICATION Spec
INVARIANT I_BothAsked
INVARIANT I_ErrOnlyIfBothFail
INVARIANT I_UnionOfBoth
INVARIANT I_OnlyCanonicalOwners
INVARIANT I_NoPanic
CHECK_DEADLOCK FALSE
