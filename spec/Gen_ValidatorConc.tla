-------------------------- MODULE Gen_ValidatorConc --------------------------
(* S->I generator for X13: behaviours of ValidatorConc.tla with Atomic =    *)
(* TRUE (a process runs from one fetch completion to its next fetch without *)
(* interleaving: the schedules a single-threaded executor with a gated      *)
(* upstream can force).  A behaviour is recorded as the schedule            *)
(* (start / adv / tick / release) with, after every operation, the events   *)
(* that become observable: "issue i t z" and "done i verdict".  Exhaustive  *)
(* over small constants (the history is part of the fingerprint, so every   *)
(* interleaving is emitted), simulated for larger ones, and script-driven   *)
(* (one given schedule) for the deviation witnesses.                        *)
EXTENDS MC_ValidatorConc, Json

CONSTANT Script     \* <<>> or the schedule to follow: <<[op, i, q, k]>>
NoScript == <<>>
\* the schedule in the ndjson file the environment names (one operation per line)
EnvScript == ndJsonDeserialize(IOEnv.X13_SCRIPT)

VARIABLE hist
gvars == <<now, cache, p, budget, cur, hist>>

GInit == Init /\ hist = <<>>

Ev(i) == IF p'[i].nf = p[i].nf + 1
         THEN <<[ev |-> "issue", i |-> i, a |-> p'[i].pend.t, b |-> p'[i].pend.z]>>
         ELSE IF p'[i].pc = "done" /\ p[i].pc # "done"
         THEN <<[ev |-> "done", i |-> i, a |-> p'[i].verdict, b |-> "-"]>>
         ELSE <<>>
Op(op, i, q, k, obs) == [op |-> op, i |-> i, q |-> q, k |-> k, obs |-> obs]

\* the next operation must be the script's, when there is one
Scripted(op, i, q, k) ==
  Script = <<>> \/ (Len(hist) < Len(Script) /\
                    LET s == Script[Len(hist) + 1] IN
                    s.op = op /\ s.i = i /\ (op = "start" => s.q = q) /\
                    (op \in {"start", "adv"} => s.k = k))

GStart(i, q, k) == Start(i, q, k) /\ Scripted("start", i, q, k)
                   /\ hist' = Append(hist, Op("start", i, q, k, <<>>))
GAdv(i, k) == Adv(i, k) /\ Scripted("adv", i, "", k)
              /\ hist' = Append(hist, Op("adv", i, "", k, <<>>))
GTick == Tick /\ ~Quiescent /\ Scripted("tick", 0, "", "")
         /\ hist' = Append(hist, Op("tick", 0, "", "", <<>>))
GRelease(i) == (RecvTA(i) \/ RecvDs(i) \/ RecvKey(i)) /\ Scripted("release", i, "", "")
               /\ hist' = Append(hist, Op("release", i, "", "", Ev(i)))
GLocal(i) == (Lookup(i) \/ Closest(i) \/ Insert(i) \/ Descend(i) \/ IssueKey(i) \/ Check(i))
             /\ hist' = [hist EXCEPT ![Len(hist)].obs = @ \o Ev(i)]

Ks == {"none"} \cup AdvKinds
GNext == \/ \E i \in Procs, q \in Qs, k \in Ks : GStart(i, q, k)
         \/ \E i \in Procs, k \in AdvKinds : GAdv(i, k)
         \/ GTick
         \/ \E i \in Procs : GRelease(i) \/ GLocal(i)
GSpec == GInit /\ [][GNext]_gvars

\* simulation: one random question / rewrite per step, so that starting a
\* validation does not crowd out the other steps
SimNext == \/ \E i \in Procs : \E q \in {RandomElement({x \in Qs : p[i].run >= 0})} :
                \E k0 \in {RandomElement({"none", "none*", "none**"} \cup {x \in AdvKinds : p[i].run >= 0})} :
                  GStart(i, q, IF k0 \in AdvKinds /\ Applies(k0, HonestAns(q)) THEN k0 ELSE "none")
           \/ \E i \in Procs : p[i].pc = "wire" /\
                 LET ks == {k \in AdvKinds : Applies(k, p[i].inbox)} IN
                 ks # {} /\ \E k \in {RandomElement(ks)} : GAdv(i, k)
           \/ GTick
           \/ \E i \in Procs : GRelease(i) \/ GLocal(i)
SimSpec == GInit /\ [][SimNext]_gvars

AllStarted == \A i \in Procs : p[i].run = Runs
EndOfScript == Script # <<>> /\ Len(hist) = Len(Script) /\ cur = 0
Emit ==
  (IF Script = <<>> THEN Quiescent ELSE EndOfScript) =>
    PrintT("CASE " \o ToJson(
      [in  |-> [ops |-> [j \in DOMAIN hist |->
                           [op |-> hist[j].op, i |-> hist[j].i, q |-> hist[j].q, k |-> hist[j].k]]],
       exp |-> [j \in DOMAIN hist |-> hist[j].obs]]))
=============================================================================
