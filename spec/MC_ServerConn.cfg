CONSTANTS
  Dev = {}
  Conns = {1}
  MaxReq = 2
  QCaps = {1}
  Kinds = {"single", "stream2"}
  MaxCredit = 2
  MaxTick = 2
  NP = 2
  Limit = 1
  MaxAErr = 0
  AAMs = {TRUE}
  MaxFail = 1
  MaxAbort = 1
SPECIFICATION SpecConn
INVARIANT EachResponseOnce
INVARIANT IdQuestionPreserved
INVARIANT Framed
INVARIANT NumConnsExact
PROPERTY OthersUnaffected
PROPERTY ClosedFinal
PROPERTY RefusedOnlyAtLimit
PROPERTY TornIsLast
CHECK_DEADLOCK FALSE
