CONSTANTS
  Dev = {}
  MaxReq = 2
  TickMs = 10000
  StConfs <- St_1_1
  RqCap = 8
  ChanCap = 8
  MaxFrames = 3
  MaxQ = 2
  MaxId = 1
  KaVals = {0}
  XQs = {}
  XfrIds = {}
  XfrAll = FALSE
  QVars = {101, 201, 301, 401}
  EndKinds = {"eof", "short", "trunc", "wfail", "stall"}
  MaxOps = 9
  Frames <- GFrames
SPECIFICATION GenSpec
VIEW GenView
ACTION_CONSTRAINT EmitTransition
CHECK_DEADLOCK FALSE
