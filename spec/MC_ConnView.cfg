SPECIFICATION Spec
INVARIANT Sane
INVARIANT Emit
CHECK_DEADLOCK FALSE
