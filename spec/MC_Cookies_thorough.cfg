CONSTANTS
  Mod = 64
  Past = 12
  Future = 4
  Dev = {}
  NowAll = TRUE
SPECIFICATION Spec
INVARIANT P1_DeniedNeedsCookie
INVARIANT P2_ValidIffExact
INVARIANT P3a_CookieOnlyValidNow
INVARIANT P3b_NoCookieUnasked
INVARIANT P3c_CookieAlways
INVARIANT P4_Total
INVARIANT P5_RetryConverges
INVARIANT TimeLawOnce
CHECK_DEADLOCK FALSE
