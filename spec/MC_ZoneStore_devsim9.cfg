CONSTANTS
  Dev = {"D_unversioned_node_creation"}
  NodeNames <- Nodes_c09
  QNames <- QNames_c09
  Types <- TypesC09
  QTypes <- QTypesC09
  Vals = {1, 2}
  ValsOf <- C09ValsOf
  OpFamilies = {"W", "U", "B"}
  Writers = {"w1"}
  Readers = {"r1"}
  MaxVer = 3
  MaxOps = 8
  MaxZf = 4
  NsTarget <- MCNsTarget
SPECIFICATION Spec
INVARIANT SnapshotIsolation
CHECK_DEADLOCK FALSE
