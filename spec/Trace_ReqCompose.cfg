CONSTANTS
  Dev = {}
SPECIFICATION TSpec
INVARIANTS Inv DevReport
POSTCONDITION Accepted
CHECK_DEADLOCK FALSE
