CONSTANTS
  Procs = {1, 2}
  Qs = {"zone"}
  Runs = 1
  MaxNow = 0
  Budget = 1
  AdvKinds = {"Empty"}
  Dev <- EnvDev
  Mut = {}
  Atomic = TRUE
  Script <- NoScript
SPECIFICATION GSpec
INVARIANT Emit
CHECK_DEADLOCK FALSE
