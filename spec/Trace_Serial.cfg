CONSTANTS
  LW = 16
SPECIFICATION TSpec
INVARIANT TTypeOK
POSTCONDITION Accepted
CHECK_DEADLOCK FALSE
