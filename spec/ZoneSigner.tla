------------------------------ MODULE ZoneSigner ------------------------------
(* X07 - signing a whole zone: sign_zone = SortedRecords o Denial o Rrsig   *)
(* (src/dnssec/sign/mod.rs sign_zone, signatures/rrsigs.rs                  *)
(* sign_sorted_zone_records, traits.rs SignableZone / SignableZoneInPlace). *)
(*                                                                          *)
(* Properties (for every zone that is sorted and unsigned, as the           *)
(* documentation of sign_zone requires, every denial configuration, every   *)
(* non-empty list of keys, both calling conventions):                       *)
(*                                                                          *)
(*  P1 SignedSet.  After signing, an RRset carries RRSIGs iff it is         *)
(*     authoritative per RFC 4035 2.2: its owner is in the zone and not     *)
(*     below a zone cut; at a cut only DS and NSEC are signed (NS, glue at   *)
(*     the cut and the child's apex data are not); occluded names are not;  *)
(*     RRSIG RRsets are not; the generated NSEC / NSEC3 / NSEC3PARAM RRsets *)
(*     are.  The apex DNSKEY / CDS / CDNSKEY RRsets are left to the caller  *)
(*     (documented).  There is exactly one RRSIG per key per such RRset -   *)
(*     not per record - with type covered = RRset type, labels = RFC 4034   *)
(*     3.1.3 (wildcard label not counted), original TTL = RRSIG TTL = RRset *)
(*     TTL, signer = the key's owner (the apex), key tag / algorithm of the *)
(*     key, inception / expiration from the configuration.                  *)
(*  P2 NothingElse.  The records generated are exactly the denial records   *)
(*     and those RRSIGs; in place the collection afterwards is the input    *)
(*     plus the generated records, nothing lost, nothing duplicated; signed *)
(*     into another collection, the input is untouched and input + output   *)
(*     is that same signed zone ("the records which when added to the zone  *)
(*     make it signed", traits.rs).                                         *)
(*  P3 OrderIndependence.  The signed zone is a function of the zone's      *)
(*     content: the order and the way (From<Vec> / extend / insert) in      *)
(*     which the collection was assembled do not matter.  (In the model a   *)
(*     zone is a set; the property is decided on the real code by the       *)
(*     S->I binding, which signs every explored zone from two assemblies.)  *)
(*  P4 Closure.  Every authoritative RRset of the signed zone has, for      *)
(*     every key, an RRSIG that passes the checks of RFC 4035 5.3.1 against *)
(*     that key's DNSKEY (model: RrsigAcceptable; real code: every RRSIG is *)
(*     verified with RrsigExt::verify_signed_data and honest answers drawn  *)
(*     from the signed zone validate Secure in ValidationContext).          *)
(*  P5 Refusal.  expiration earlier than inception (RFC 1982 order) is      *)
(*     refused with an error and no RRSIG is produced; the original records *)
(*     are intact.                                                          *)
(*                                                                          *)
(* Part 1 is the declarative oracle (RFC 4035 2.2 over Denial.tla's View),  *)
(* Part 2 the single pass of sign_sorted_zone_records transcribed as a      *)
(* machine - one action per owner visited, one per RRset visited, with the  *)
(* `cut` state - and sign_zone's composition around it, Part 3 what a       *)
(* validator requires of each signature.                                    *)
(*                                                                          *)
(* Abstraction: a zone is a set of RRset entries                            *)
(*   [n |-> owner as spelled, t |-> type, ttl |-> TTL, cnt |-> #records];   *)
(* record data is irrelevant to which RRsets are signed (the signed octets  *)
(* are C12's subject, Rrsig.tla).  Denial.tla's operators only look at .n   *)
(* and .t, so entries are its "records".  The NSEC3 hash is uninterpreted:  *)
(* a rank function and one label per rank (HLabel).                         *)
EXTENDS Denial

R == INSTANCE Rrsig      \* SignerFields / KeyTag / RrsigLabels use (C12)

DevNames == {"D_sign_into_skips_zone"}

T_CNAME == 5  T_AAAA == 28  T_NSEC3 == 50  T_CDS == 59  T_CDNSKEY == 60

RRs(n, t, ttl, cnt) == [n |-> n, t |-> t, ttl |-> ttl, cnt |-> cnt]

\* RRset types that sign_sorted_zone_records leaves to the caller at the apex
\* ("This function CANNOT be used to generate RRSIG RRs for DNSKEY, CDS and
\* CDNSKEY RRs", RFC 7344 4.1)
CallerSigned == {T_DNSKEY, T_CDS, T_CDNSKEY}

--------------------------------------------------------------------------
(* Time stamps: 32-bit values as two 16-bit limbs <<hi, lo>> (TLC integers *)
(* are 32-bit signed); RFC 1982 order with SERIAL_BITS = 32.               *)
TsOctets(ts) == <<ts[1] \div 256, ts[1] % 256, ts[2] \div 256, ts[2] % 256>>
\* (b - a) mod 2^32 as limbs
TsDiff(b, a) ==
  LET borrow == IF b[2] < a[2] THEN 1 ELSE 0
  IN <<(b[1] - a[1] - borrow + 65536) % 65536, (b[2] - a[2] + 65536) % 65536>>
\* b < a in serial number arithmetic (undefined at distance 2^31: not less)
TsLess(b, a) ==
  LET d == TsDiff(b, a)          \* b - a; "negative" iff > 2^31
  IN d[1] > 32768 \/ (d[1] = 32768 /\ d[2] > 0)
\* sign_sorted_rrset_in: `if expiration < inception { return Err(..) }`
PeriodRefused(c) == TsLess(c.exp, c.inc)

--------------------------------------------------------------------------
(* Part 1: declarative.  full = the zone together with its denial records. *)

\* RFC 4035 2.2: "each authoritative RRset" - "NS RRsets at delegation
\* points and glue are not authoritative and MUST NOT be signed"; "an RRSIG
\* RR itself MUST NOT be signed"; 2.3 / RFC 5155 7.1: the NSEC(3) RRsets
\* are authoritative data of the zone.  At a delegation point the parent is
\* authoritative for DS and NSEC only.
Authoritative(v, apex, e) ==
  LET n == Low(e.n)
  IN /\ n \in v.auth
     /\ e.t # T_RRSIG
     /\ (n \in v.cuts => e.t \in {T_DS, T_NSEC})
SignedRRsetsV(v, full, apex) ==
  {e \in full : Authoritative(v, apex, e) /\ ~(Low(e.n) = Low(apex) /\ e.t \in CallerSigned)}
SignedRRsets(full, apex) == SignedRRsetsV(View(full, apex), full, apex)

\* the RRSIG for RRset e by key k: RFC 4035 2.2 bullet list; the field
\* choice is Rrsig.tla's SignerFields (C12), signer name = key owner
KeyRd(k) == [flags |-> k.flags, proto |-> k.proto, alg |-> k.alg, pub |-> k.pub]
SigOf(e, ki, c) ==
  LET k == c.keys[ki]
      f == R!SignerFields(KeyRd(k), k.owner,
                          <<[owner |-> e.n, type |-> e.t, ttl |-> e.ttl]>>,
                          TsOctets(c.inc), TsOctets(c.exp))
  IN [n |-> e.n, ttl |-> e.ttl, key |-> ki, cov |-> f.tc, alg |-> f.alg, labels |-> f.labels,
      ottl |-> f.ottl, exp |-> f.exp, inc |-> f.inc, tag |-> f.tag, signer |-> f.signer]
OracleSigs(full, apex, c) ==
  {SigOf(e, ki, c) : e \in SignedRRsets(full, apex), ki \in 1..Len(c.keys)}

\* the denial records sign_zone generates first (C13: Denial.tla's passes,
\* checked there against the declarative chains)
\* the label standing for the 32-character hash label of the name with hash
\* rank r: "007", "a01", "b02", "z03", ... (injective; interleaves with the
\* zone's own one-letter labels in canonical order)
HPick(r) == <<48, 97, 98, 122>>[(r % 4) + 1]
HLabel(r) == <<HPick(r), 48 + (r \div 10), 48 + (r % 10)>>
DenTtl(c) == Min(c.soa.ttl, c.soa.min)                    \* RFC 9077
DenialOf(zone, apex, c) ==
  CASE c.den = "none" -> [err |-> FALSE, recs |-> {}]
    [] c.den = "nsec" ->
         LET p == NsecPass(SortRecs(zone), apex, c.assume)
         IN [err |-> p.err,
             recs |-> {RRs(p.out[i].owner, T_NSEC, DenTtl(c), 1) : i \in 1..Len(p.out)}]
    [] OTHER ->
         LET p == Nsec3Pass(SortRecs(zone), apex, c.den = "optout", c.assume, c.rank)
         IN [err |-> p.err,
             recs |-> {RRs(<<HLabel(c.rank[Low(p.out[i].owner)])>> \o apex, T_NSEC3, DenTtl(c), 1)
                         : i \in 1..Len(p.out)}
                      \cup (IF p.err THEN {} ELSE {RRs(apex, T_NSEC3PARAM, c.soa.ttl, 1)})]

\* the whole outcome, declaratively
SignedZone(zone, apex, c) ==
  LET d == DenialOf(zone, apex, c)
  IN IF d.err THEN [err |-> TRUE, den |-> {}, sigs |-> {}]
     ELSE IF c.keys # <<>> /\ PeriodRefused(c) THEN [err |-> TRUE, den |-> d.recs, sigs |-> {}]
     ELSE [err |-> FALSE, den |-> d.recs, sigs |-> OracleSigs(zone \cup d.recs, apex, c)]

--------------------------------------------------------------------------
(* Part 2: sign_sorted_zone_records transcribed.  The pass walks the owner *)
(* groups of the sorted collection (RecordsIter after skip_before) with    *)
(* the state `cut`; per owner: break when out of zone, continue when below *)
(* the cut, else set `cut` and visit the owner's RRsets in type order.     *)

\* what happens at an owner group
OwnerVerdict(cut, g, apex) ==
  IF ~IsSubdomain(GOwner(g), apex) THEN "break"                       \* is_in_zone
  ELSE IF cut.some /\ IsSubdomain(GOwner(g), cut.n) THEN "skip"       \* ends_with(cut)
  ELSE "visit"
NewCut(g, apex) == IF GIsCut(g, apex) THEN Some(GOwner(g), {}) ELSE None
\* the three-way decision for one RRset of a visited owner
RrsetSigned(cut, name, apex, t) ==
  IF cut.some THEN t \in {T_DS, T_NSEC}
  ELSE IF t \in CallerSigned /\ CanonNameCmp(name, apex) = 0 THEN FALSE
  ELSE t # T_RRSIG
KeySigs(e, c) == [ki \in 1..Len(c.keys) |-> SigOf(e, ki, c)]

\* the same pass as a fold (used by the trace validator and for the second
\* pass of the repaired sign-into path); result: sequence of signatures in
\* the order produced
PassGroup(st, g, apex, c) ==
  IF st.done THEN st
  ELSE LET v == OwnerVerdict(st.cut, g, apex)
       IN IF v = "break" THEN [st EXCEPT !.done = TRUE]
          ELSE IF v = "skip" THEN st
          ELSE LET cut == NewCut(g, apex)
               IN [cut |-> cut, done |-> FALSE,
                   out |-> FoldL(LAMBDA acc, e :
                                   IF RrsetSigned(cut, GOwner(g), apex, e.t)
                                   THEN acc \o KeySigs(e, c) ELSE acc,
                                 st.out, g)]
PassSeq(sorted, apex, c) ==
  FoldL(LAMBDA st, g : PassGroup(st, g, apex, c),
        [cut |-> None, done |-> FALSE, out |-> <<>>], Groups(sorted, apex)).out
Range(s) == {s[i] : i \in 1..Len(s)}

--------------------------------------------------------------------------
(* Part 3: what a validator checks of an RRSIG before the cryptography     *)
(* (RFC 4035 5.3.1), against the DNSKEY of key k at the apex.              *)
RrsigAcceptable(s, e, apex, k) ==
  /\ NameEq(s.n, e.n) /\ s.cov = e.t                       \* same owner, class, type covered
  /\ NameEq(s.signer, apex) /\ IsSubdomain(e.n, s.signer)  \* signer = zone containing the RRset
  /\ s.labels <= Len(e.n)                                  \* labels <= owner labels
  /\ s.labels = RrsigLabels(e.n)                           \*   (and exactly RFC 4034 3.1.3)
  /\ s.ottl = e.ttl /\ s.ttl = e.ttl
  /\ s.alg = k.alg /\ s.tag = R!KeyTag(KeyRd(k))           \* identifies the zone key
  /\ NameEq(k.owner, apex)
  /\ (k.flags \div 256) % 2 = 1                            \* Zone Key flag (bit 7)
=============================================================================
