CONSTANTS
  Dev = {"D_rdata_pointers_verbatim"}
  Small = FALSE
  MaxOps = 1
  KeepHist = FALSE
  Family = "ptr"
SPECIFICATION Spec
VIEW MCView
INVARIANTS P1_RoutesAgree
CHECK_DEADLOCK FALSE
