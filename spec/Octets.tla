------------------------------- MODULE Octets -------------------------------
(* Octet-string vocabulary shared by all wire-level specifications.        *)
EXTENDS Integers, Sequences

Octet == 0..255

Take(s, n) == SubSeq(s, 1, IF n < Len(s) THEN n ELSE Len(s))
Drop(s, n) == SubSeq(s, n + 1, Len(s))

\* big-endian integers; positions are 1-based indexes into s
U16At(s, i) == s[i] * 256 + s[i + 1]
U32At(s, i) == ((s[i] * 256 + s[i + 1]) * 256 + s[i + 2]) * 256 + s[i + 3]
EncU8(v)  == <<v % 256>>
EncU16(v) == <<(v \div 256) % 256, v % 256>>
EncU32(v) == <<(v \div 16777216) % 256, (v \div 65536) % 256, (v \div 256) % 256, v % 256>>

\* ASCII case folding: only 'A'..'Z' (65..90) are touched
Lower(b) == IF b >= 65 /\ b <= 90 THEN b + 32 ELSE b
LowerSeq(s) == [i \in 1..Len(s) |-> Lower(s[i])]

Min(a, b) == IF a < b THEN a ELSE b
Max(a, b) == IF a > b THEN a ELSE b

\* octet-wise lexicographic comparison, a proper prefix sorts first: -1 / 0 / 1
RECURSIVE LexCmpFrom(_, _, _)
LexCmpFrom(s, t, i) ==
  IF i > Len(s) /\ i > Len(t) THEN 0
  ELSE IF i > Len(s) THEN -1
  ELSE IF i > Len(t) THEN 1
  ELSE IF s[i] < t[i] THEN -1
  ELSE IF s[i] > t[i] THEN 1
  ELSE LexCmpFrom(s, t, i + 1)
LexCmp(s, t) == LexCmpFrom(s, t, 1)

IsPrefixOf(p, s) == Len(p) <= Len(s) /\ SubSeq(s, 1, Len(p)) = p

RECURSIVE Concat(_)
Concat(ss) == IF ss = <<>> THEN <<>> ELSE Head(ss) \o Concat(Tail(ss))

RECURSIVE SumSeq(_)
SumSeq(s) == IF s = <<>> THEN 0 ELSE Head(s) + SumSeq(Tail(s))
=============================================================================
