CONSTANTS
  Procs = {1, 2}
  Qs = {"zone", "plain"}
  Runs = 1
  MaxNow = 2
  Budget = 1
  AdvKinds = {"Short", "Empty"}
  Dev = {}
  Mut = {}
  Atomic = FALSE
SPECIFICATION Spec
PROPERTY Termination
CHECK_DEADLOCK TRUE
