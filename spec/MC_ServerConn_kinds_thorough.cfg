CONSTANTS
  Dev = {}
  Conns = {1}
  MaxReq = 2
  QCaps = {1, 2}
  Kinds = {"single", "stream2", "fail", "txn"}
  MaxCredit = 3
  MaxTick = 2
  MaxAbort = 1
SPECIFICATION SpecConn
INVARIANT EachResponseOnce
INVARIANT IdQuestionPreserved
INVARIANT Framed
PROPERTY OthersUnaffected
PROPERTY ClosedFinal
CHECK_DEADLOCK FALSE
