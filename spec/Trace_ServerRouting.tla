-------------------------- MODULE Trace_ServerRouting --------------------------
(* I->S: a recorded run of add / call on the real QnameRouter (behind the    *)
(* adapter, with and without EdnsMiddlewareSvc) must be a behaviour of       *)
(* ServerRouting.tla.                                                        *)
EXTENDS ServerRouting, TLC, Json, IOUtils

Rec == ndJsonDeserialize(IOEnv.TRACE)

VARIABLES l, used
tvars == <<rvars, l, used>>

TInit == RInit /\ l = 1 /\ used = {}

T_Reset == /\ l <= Len(Rec) /\ Rec[l].ev = "reset" /\ l' = l + 1
           /\ routes' = <<>> /\ last' = NoCall /\ UNCHANGED used
T_Add == /\ l <= Len(Rec) /\ Rec[l].ev = "add" /\ l' = l + 1
         /\ R_Add(Rec[l].name) /\ UNCHANGED used
T_Call ==
  /\ l <= Len(Rec) /\ Rec[l].ev = "call" /\ l' = l + 1
  /\ LET e == Rec[l] IN
     \/ /\ routes' = routes
        /\ last' = [valid |-> TRUE, q |-> e.q, qd |-> e.qd, edns |-> e.edns, mw |-> e.mw,
                    chosen |-> IF e.qd = 0 THEN 0 ELSE Chosen(routes, e.q),
                    invoked |-> IF e.qd = 0 \/ Chosen(routes, e.q) = 0 THEN <<>> ELSE <<Chosen(routes, e.q)>>,
                    panic |-> FALSE]
        /\ e.obs = Reply(last')
        /\ UNCHANGED used
     \/ /\ "D_router_no_question_panic" \in Dev /\ e.qd = 0 /\ e.obs = [panic |-> TRUE]
        /\ UNCHANGED <<routes, last>>
        /\ used' = used \cup {"D_router_no_question_panic"}
        /\ ("D_router_no_question_panic" \notin used) => PrintT("TRACE_DEVS " \o ToJson([devs |-> {"D_router_no_question_panic"}]))

TNext == T_Reset \/ T_Add \/ T_Call
TSpec == TInit /\ [][TNext]_tvars

Accepted ==
  LET d == TLCGet("stats").diameter
  IN IF d = Len(Rec) + 1
     THEN TRUE
     ELSE /\ PrintT("TRACE_REJECTED " \o ToJson([matched |-> d - 1, total |-> Len(Rec),
                      event |-> IF d <= Len(Rec) THEN Rec[d] ELSE [ev |-> "none"]]))
          /\ FALSE
=============================================================================
