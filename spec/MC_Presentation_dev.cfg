CONSTANTS
  Dev = {"D_label_escape_set"}
  MaxStr = 1
SPECIFICATION Spec
INVARIANT ReadEqualsWritten
CHECK_DEADLOCK FALSE
