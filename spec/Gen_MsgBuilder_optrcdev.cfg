CONSTANTS
  Dev = {"D_opt_rcode_sticks"}
  Scenario = "optrc"
  MaxOps = 4
  CompSet = {"none", "tree"}
  TgtSet = {"array", "sarray"}
SPECIFICATION Spec
INVARIANT Emit
CHECK_DEADLOCK FALSE
