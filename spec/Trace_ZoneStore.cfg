CONSTANTS
  Dev <- AllDevs
  NodeNames <- Nodes_trace
  QNames <- QNames_small
  Types <- AllTypes
  QTypes <- QTypesAll
  Vals = {1, 2, 3}
  ValsOf <- TraceValsOf
  OpFamilies = {"W", "U", "M", "B"}
  Writers = {"w1", "w2"}
  Readers = {"r1", "r2", "r3", "r4"}
  MaxVer = 90
  MaxOps = 100000
  MaxZf = 1000
  NsTarget <- MCNsTarget
SPECIFICATION TSpec
INVARIANT SingleWriter
INVARIANT TContent
POSTCONDITION Accepted
CHECK_DEADLOCK FALSE
