CONSTANTS
  NSSet = {0, 1, 2, 3}
  SearchSet <- MCQ_Search
  NDotsSet = {1}
  DotsSet = {0}
  CallSet = {"query"}
  TooLongSet <- MCQ_TooLong
  ModeSet = {"mock"}
  UseVcSet = {FALSE}
  TcpOnlySet <- MCQ_TcpOnly
  TmoSet = {40}
  Est = 30
  Outs = {"Data", "NX", "SF", "REF", "FE", "Err"}
  TcpOuts = {"Data"}
  Lats = {1, 50, 9999}
  FreshEvery = FALSE
  Dev = {}
SPECIFICATION MCSpec
INVARIANT Honest
INVARIANT AtMostOncePerRound
INVARIANT InTime
INVARIANT NoPanic
INVARIANT NoDatagramWithVc
INVARIANT TruncationRetriedOverTcp
INVARIANT NeverTruncatedFromUdp
INVARIANT SearchOrder
INVARIANT SearchResult
INVARIANT FoundIsForCandidate
INVARIANT EveryServerAsked
CHECK_DEADLOCK TRUE
