CONSTANTS
  Dev = {}
  Deltas <- DeltasThorough
  BadLens = {0, 4, 12, 41}
SPECIFICATION Spec
INVARIANT Emit
CHECK_DEADLOCK FALSE
