--------------------------- MODULE Trace_HeaderAlg ---------------------------
(* I->S: a recorded run of the real header types / message builder (one      *)
(* event per public call, with the call's result and the complete projected  *)
(* state) must be a behaviour of the machine of HeaderAlg.tla.  A step may    *)
(* follow a named deviation only if it is listed in Dev; the deviations that  *)
(* were needed are reported (TRACE_DEVS).                                      *)
EXTENDS HeaderAlg, Json, IOUtils

Rec == ndJsonDeserialize(IOEnv.TRACE)

VARIABLES l, st, used
tvars == <<l, st, used>>

IsEv(S) == l <= Len(Rec) /\ Rec[l].ev \in S /\ l' = l + 1
OpOf(e) == [k |-> e.ev, a |-> e.a]
\* the projection an event logs
Seen(e) == [h |-> e.h, o |-> e.o, g |-> e.g, r |-> e.r, c |-> e.c, x |-> e.x]

TInit == l = 1 /\ st = Fresh /\ used = {}

\* the recorded call is the specification's step from the current state
Follows(D) ==
  LET e == Rec[l]  res == Step(st, OpOf(e), D) IN
  /\ Enabled(st, OpOf(e))
  /\ Proj(res) = Seen(e)
  /\ st' = res.s

Ideal(S) == IsEv(S) /\ Follows({}) /\ UNCHANGED used
T_Reset == /\ IsEv({"reset"})
           /\ st' = [h |-> Rec[l].h, o |-> Rec[l].o, g |-> Rec[l].g]
           /\ Getters(st') = Rec[l].x
           /\ UNCHANGED used
T_HeaderSet == Ideal(HeaderOps)
T_Counts == Ideal(CountOps)
T_OptHeader == Ideal(OptHeaderOps)
T_Goto == Ideal({"goto"})
T_Push == Ideal({"push"})
T_Opt == Ideal({"opt"})
T_Start == Ideal({"start_answer", "start_error"})
T_Axfr == Ideal({"request_axfr"})
\* a Message over the same octets reports the same header, and the joined rcode
T_Message == /\ IsEv({"message"})
             /\ Rec[l].h = st.h
             /\ Rec[l].rc = MsgRcode(st.h, st.o)
             /\ Rec[l].ne = B(HGet(st.h, "rcode") = 0)
             /\ Rec[l].has = B(st.o # <<>>)
             /\ UNCHANGED <<st, used>>
T_Dev(d, S) ==
  /\ d \in Dev
  /\ IsEv(S)
  /\ Step(st, OpOf(Rec[l]), {d}) # Step(st, OpOf(Rec[l]), {})
  /\ Follows({d})
  /\ used' = used \cup {d}
T_Dev_set_opcode_spill == T_Dev("D_set_opcode_spill", {"set_opcode"})
T_Dev_opt_fail_keeps_rcode == T_Dev("D_opt_fail_keeps_rcode", {"opt"})

TNext == T_Reset \/ T_HeaderSet \/ T_Counts \/ T_OptHeader \/ T_Goto \/ T_Push \/ T_Opt
         \/ T_Start \/ T_Axfr \/ T_Message
         \/ T_Dev_set_opcode_spill \/ T_Dev_opt_fail_keeps_rcode
TSpec == TInit /\ [][TNext]_tvars

\* the state invariants of the machine hold along the recorded run
RcodeJoin ==
  /\ st.o = <<>> => MsgRcode(st.h, st.o) < 16
  /\ st.o # <<>> => /\ RcLow(MsgRcode(st.h, st.o)) = HGet(st.h, "rcode")
                    /\ RcExt(MsgRcode(st.h, st.o)) = OExt(st.o[1])
StageCounts ==
  st.g >= 0 => /\ \A sec \in 0..3 : sec + 1 > st.g => HCount(st.h, sec) = 0
               /\ Len(st.o) <= HCount(st.h, 3)

Accepted ==
  LET d == TLCGet("stats").diameter
  IN IF d = Len(Rec) + 1 THEN TRUE
     ELSE /\ PrintT("TRACE_REJECTED " \o ToJson([matched |-> d - 1, total |-> Len(Rec),
                      event |-> IF d <= Len(Rec) THEN Rec[d] ELSE [ev |-> "none"]]))
          /\ FALSE
\* which deviations the accepted run needed (printed when the last event is consumed)
DevReport == (l = Len(Rec) + 1 /\ used # {}) => PrintT("TRACE_DEVS " \o ToJson([devs |-> used]))
=============================================================================
