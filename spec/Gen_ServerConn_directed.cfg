CONSTANTS
  Dev = {}
  Mode = "conn"
  NConn = 4
  MaxReq = 3
  QCapG = 1
  Kinds = {"single", "stream2", "fail", "txn"}
  MaxOps = 0
  MaxCredit = 5
  MaxTick = 3
  Limit = 2
  AAM = TRUE
  WithSReconf = FALSE
  Defaults = FALSE
SPECIFICATION Spec
INVARIANT EmitDirected
CHECK_DEADLOCK FALSE
