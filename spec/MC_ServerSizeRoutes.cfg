CONSTANTS
  Dev = {}
  CSizes = {70000, 512, 4096}
  Hints = {70000, 1232}
  Lens = {100, 700, 5000}
  OptLens = {0, 11, 300}
  ROpts = {"none"}
  Recipes = {"plain", "rewind", "filllimit", "fill64k", "optfail"}
  Routes = {"mk", "new", "from", "newtgt"}
  ALays = {"none", "before", "after", "both"}
  Tgts = {"vec", "bytes"}
  SvcRoutes = {"impl", "fn"}
  EOns = {TRUE, FALSE}
  QLens = {17}
SPECIFICATION Spec
INVARIANT UdpSize
INVARIANT TcIffDropped
INVARIANT StillParses
INVARIANT StreamFramed
INVARIANT NegotiateLaws
INVARIANT Emit
CHECK_DEADLOCK FALSE
