--------------------------- MODULE Trace_ZoneSigner ---------------------------
(* I->S for X07: zones of 50-300 records (all zone-file record types,       *)
(* delegations with glue, occluded names, ENTs, wildcards, names outside    *)
(* the zone) signed by the real sign_zone with real keys.  One event per    *)
(* call: the input as RRset entries in the library's order, the RRset       *)
(* entries of everything but RRSIGs after the call, and the projection of   *)
(* every RRSIG in collection order.  The recorded signatures must be what   *)
(* the transcribed pass produces, in that order, and as a set exactly the   *)
(* oracle's (RFC 4035 2.2), one per key per RRset; the remainder must be    *)
(* the input plus denial records at the right owners; every RRSIG verified  *)
(* and every honest answer validated Secure when the recorder tried.        *)
EXTENDS ZoneSigner, Json, IOUtils

Rec == ndJsonDeserialize(IOEnv.TRACE)

VARIABLES l
tvars == <<l>>

IsEv(e) == l <= Len(Rec) /\ Rec[l].ev = e /\ l' = l + 1
TInit == l = 1

Proj(s) == [n |-> Low(s.n), cov |-> s.cov, key |-> s.key, alg |-> s.alg, labels |-> s.labels,
            ttl |-> s.ttl, ottl |-> s.ottl, exp |-> s.exp, inc |-> s.inc, tag |-> s.tag,
            signer |-> Low(s.signer)]
DenTypes == {T_NSEC, T_NSEC3, T_NSEC3PARAM}
Limbs(o) == <<o[1] * 256 + o[2], o[3] * 256 + o[4]>>

T_Sign ==
  /\ IsEv("sign")
  /\ LET e    == Rec[l]
         apex == e.apex
         zone == Range(e.zone)
         full == Range(e.full)
         den  == {x \in full : x.t \in DenTypes}
         c    == [keys |-> e.keys, inc |-> Limbs(e.inc), exp |-> Limbs(e.exp)]
         vz   == View(zone, apex)
         vf   == View(full, apex)
         into == e.mode = "into"
         \* what the second collection / the zone itself is signed from
         src  == IF into THEN SortRecs(den) ELSE e.full
         pass == PassSeq(src, apex, c)
         want == {Proj(SigOf(x, ki, c)) : x \in SignedRRsetsV(vf, full, apex), ki \in 1..Len(c.keys)}
         wantD == {s \in want : s.cov \in DenTypes}     \* sign-into as built
         got  == [i \in 1..Len(e.sigs) |-> e.sigs[i]]
     IN /\ IsSortedRecs(e.zone) /\ IsSortedRecs(e.full)
        /\ ~e.err
        \* P2: the input is still there, what was added are denial records
        /\ {x \in full : x.t \notin DenTypes} = zone
        /\ \A x \in zone : x.t \notin DenTypes \cup {T_RRSIG}
        /\ CASE e.den = "none" -> den = {}
             [] e.den = "nsec" -> /\ {Low(x.n) : x \in den} = vz.auth
                                  /\ \A x \in den : x.t = T_NSEC /\ x.cnt = 1
             [] OTHER -> /\ Cardinality({x \in den : x.t = T_NSEC3})
                              = Cardinality(N3NamesV(vz, apex, e.den = "optout"))
                         /\ \A x \in den : /\ x.cnt = 1
                                           /\ IF x.t = T_NSEC3 THEN Len(x.n) = Len(apex) + 1 /\ IsSubdomain(x.n, apex)
                                              ELSE x.t = T_NSEC3PARAM /\ NameEq(x.n, apex)
                         /\ \E x \in den : x.t = T_NSEC3PARAM
        \* P1: the transcription, in order, and the oracle, as a set
        \* (a repaired sign-into path is accepted as well as the deviation)
        /\ \/ /\ Range(got) = want /\ Len(got) = Cardinality(want)
              /\ ~into => got = [i \in 1..Len(pass) |-> Proj(pass[i])]
           \/ /\ into /\ "D_sign_into_skips_zone" \in Dev
              /\ Range(got) = wantD /\ Len(got) = Cardinality(wantD)
              /\ got = [i \in 1..Len(pass) |-> Proj(pass[i])]
        \* P4
        /\ e.verified /\ e.validated
        /\ \A ki \in 1..Len(c.keys) : NameEq(c.keys[ki].owner, apex)

\* P5: a refused validity period
T_Refused ==
  /\ IsEv("refused")
  /\ LET e == Rec[l]
         c == [inc |-> Limbs(e.inc), exp |-> Limbs(e.exp)]
     IN PeriodRefused(c) = e.err /\ (e.err => e.nsigs = 0) /\ e.intact

TNext == T_Sign \/ T_Refused
TSpec == TInit /\ [][TNext]_tvars

Accepted ==
  LET d == TLCGet("stats").diameter
  IN IF d = Len(Rec) + 1 THEN TRUE
     ELSE /\ PrintT("TRACE_REJECTED " \o ToJson([matched |-> d - 1, total |-> Len(Rec),
                      event |-> IF d <= Len(Rec) THEN [ev |-> Rec[d].ev, apex |-> Rec[d].apex,
                                                       den |-> Rec[d].den, mode |-> Rec[d].mode,
                                                       seed |-> Rec[d].seed]
                                ELSE [ev |-> "none"]]))
          /\ FALSE
=============================================================================
