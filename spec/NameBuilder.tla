----------------------------- MODULE NameBuilder -----------------------------
(* C03 -- the domain-name builder (src/base/name/builder.rs) as a state     *)
(* machine, with the RFC 1035 length limits as guards.                      *)
(*                                                                          *)
(* Abstract builder state (a record, so that the pure step functions can be *)
(* reused by the model-checking wrapper, the case generator and the trace   *)
(* validator):                                                              *)
(*   len   octets in the buffer (for an open label this includes the one    *)
(*         octet reserved for its length octet, exactly like the code's     *)
(*         `builder.len()`)                                                 *)
(*   open  a label is under construction (`head.is_some()`)                 *)
(*   cur   content octets of the open label (`len - head - 1`), 0 if closed *)
(*   ok    ghost: the closed part of the buffer is a well-formed sequence   *)
(*         of labels whose length octets equal their content lengths        *)
(*   labs  ghost: content lengths of the closed labels, leftmost first      *)
(*   fresh the octet reserved for the open label's length currently holds   *)
(*         cur (it holds 0 after the label was opened; a failed            *)
(*         append_label has already written it before putting `head`       *)
(*         back).  Not observable and irrelevant to the ideal design; it   *)
(*         decides whether D_append_name_open_label leaves a malformed     *)
(*         buffer or, by accident, a well-formed one.                      *)
(* Label *contents* are irrelevant to the limits and are not modelled.      *)
(*                                                                          *)
(* What the property demands (properties.jsonl C03, RFC 1035 2.3.4/3.1):    *)
(* labels 1..63 octets, a relative name at most 254 octets, an absolute     *)
(* name at most 255 octets.  A builder holds a relative name in the making, *)
(* so every reachable builder state must have len <= 254 (254 itself is     *)
(* legitimate: finish() gives a 254-octet relative name and into_name() a   *)
(* 255-octet absolute name), cur <= 63, and the closed part well formed.    *)
(*                                                                          *)
(* Every step function takes the set D of deviations that are switched on;  *)
(* D = {} is the behaviour the property requires, D = Dev is today's code.  *)
(*   D_push_253                push() with no open label tests only         *)
(*                             `len >= 254` and then appends two octets     *)
(*                             (length octet + content): at len 253 the     *)
(*                             buffer grows to 255.                         *)
(*   D_slice_new_label_plus1   append_slice() with no open label tests      *)
(*                             `len + n > 254` and appends n + 1 octets     *)
(*                             (asserted by the pinned test name_limit).    *)
(*   D_slice_in_label_no_total append_slice() inside a label has no total-  *)
(*                             length test at all.                          *)
(*   D_slice_in_label_guard    append_slice() inside a label tests          *)
(*                             `n > 63 - (len - head)`, and len - head is   *)
(*                             cur + 1: a slice that completes the label to *)
(*                             exactly 63 octets is refused, and at cur =   *)
(*                             63 the subtraction underflows (panic with    *)
(*                             overflow checks as in the harness and debug  *)
(*                             builds; unchecked wrap-around otherwise).    *)
(*   D_append_name_open_label  append_name() takes `head` before calling    *)
(*                             end_label(), so the open label's length      *)
(*                             octet stays 0 and the buffer is malformed.   *)
EXTENDS Names, TLC

CONSTANT Dev          \* deviations switched on (subset of DevNames)

DevNames == {"D_push_253", "D_slice_new_label_plus1", "D_slice_in_label_no_total",
             "D_slice_in_label_guard", "D_append_name_open_label"}

MaxLabel == 63
MaxRel   == 254       \* RelativeName / builder content
MaxAbs   == 255       \* Name

InitSt == [len |-> 0, open |-> FALSE, cur |-> 0, ok |-> TRUE, labs |-> <<>>, fresh |-> FALSE]
\* equality of builder states up to the unobservable `fresh`
Same(a, b) == [a EXCEPT !.fresh = FALSE] = [b EXCEPT !.fresh = FALSE]

\* wire length of a sequence of label content lengths (no root octet)
WireOfLens(ls) == SumSeq([i \in 1..Len(ls) |-> 1 + ls[i]])
\* the same thing as a Names.tla name (contents are irrelevant: all 'a')
LabelsOf(ls) == [i \in 1..Len(ls) |-> [j \in 1..ls[i] |-> 97]]

\* results: res in {"ok","err","panic"}; out describes a produced name
NoOut == [kind |-> "none", nlen |-> 0, valid |-> TRUE]
R(res, s) == [res |-> res, st |-> s, out |-> NoOut]

---------------------------------------------------------------------------
(* The calls, as pure functions of (state, arguments, deviations)          *)

\* end_label(): writes cur into the length octet, closes the label
EndLabelF(s) ==
  IF s.open
  THEN [len |-> s.len, open |-> FALSE, cur |-> 0,
        ok |-> s.ok /\ s.cur >= 1 /\ s.cur <= MaxLabel,
        labs |-> Append(s.labs, s.cur), fresh |-> FALSE]
  ELSE s

\* push(octet)
PushF(s, D) ==
  IF s.open
  THEN IF s.cur + 1 > MaxLabel THEN R("err", s)
       ELSE IF s.len + 1 > MaxRel THEN R("err", s)
       ELSE R("ok", [s EXCEPT !.len = @ + 1, !.cur = @ + 1, !.fresh = FALSE])
  ELSE \* a new label costs its length octet as well
       IF (IF "D_push_253" \in D THEN s.len + 1 > MaxRel ELSE s.len + 2 > MaxRel)
       THEN R("err", s)
       ELSE R("ok", [s EXCEPT !.len = @ + 2, !.open = TRUE, !.cur = 1])

\* append_slice(slice of n octets)
AppendSliceF(s, n, D) ==
  IF n = 0 THEN R("ok", s)
  ELSE IF s.open
  THEN LET labelErr == IF "D_slice_in_label_guard" \in D
                       THEN (IF s.cur >= MaxLabel THEN "panic"
                             ELSE IF n > MaxLabel - (s.cur + 1) THEN "err" ELSE "ok")
                       ELSE (IF s.cur + n > MaxLabel THEN "err" ELSE "ok")
           totalErr == IF "D_slice_in_label_no_total" \in D THEN FALSE
                       ELSE s.len + n > MaxRel
       IN IF labelErr # "ok" THEN R(labelErr, s)
          ELSE IF totalErr THEN R("err", s)
          ELSE R("ok", [s EXCEPT !.len = @ + n, !.cur = @ + n, !.fresh = FALSE])
  ELSE IF n > MaxLabel THEN R("err", s)
       ELSE IF (IF "D_slice_new_label_plus1" \in D THEN s.len + n > MaxRel
                ELSE s.len + 1 + n > MaxRel)
       THEN R("err", s)
       ELSE R("ok", [s EXCEPT !.len = @ + 1 + n, !.open = TRUE, !.cur = n])

\* end_label() as a call of its own
EndLabelCallF(s) == R("ok", EndLabelF(s))

\* append_label(label of n octets): end_label; append_slice; on error put
\* `head` back (the abstract state is then the one before the call);
\* end_label.  An empty label appends nothing (append_slice's documented
\* behaviour) but still ends the open label.  After an error the length
\* octet of a label that was open has been written.
AppendLabelF(s, n, D) ==
  LET r == AppendSliceF(EndLabelF(s), n, D)
  IN IF r.res # "ok" THEN R(r.res, [s EXCEPT !.fresh = s.open \/ @])
     ELSE R("ok", EndLabelF(r.st))

\* append_name(relative name with label lengths rel)
AppendNameF(s, rel, D) ==
  LET broken == "D_append_name_open_label" \in D /\ s.open
      s1 == IF broken
            THEN \* head taken, end_label() did nothing: the length octet keeps
                 \* what it held (0, i.e. `00 content..`, unless a failed
                 \* append_label happened to leave the right value there)
                 [len |-> s.len, open |-> FALSE, cur |-> 0, ok |-> s.ok /\ s.fresh,
                  labs |-> Append(s.labs, s.cur), fresh |-> FALSE]
            ELSE EndLabelF(s)
  IN IF s1.len + WireOfLens(rel) > MaxRel
     THEN R("err", IF broken THEN s ELSE [s EXCEPT !.fresh = s.open \/ @])
     ELSE R("ok", [s1 EXCEPT !.len = @ + WireOfLens(rel), !.labs = @ \o rel])

\* append_dec_u8_label(value with k decimal digits): end_label; k pushes;
\* end_label.  The code stops at the first failing push and leaves what was
\* done so far (the property only asks that the builder stays usable).
RECURSIVE PushesF(_, _, _)
PushesF(s, k, D) ==
  IF k = 0 THEN R("ok", s)
  ELSE LET r == PushF(s, D) IN IF r.res # "ok" THEN r ELSE PushesF(r.st, k - 1, D)
AppendDigitsF(s, k, D) ==
  LET r == PushesF(EndLabelF(s), k, D)
  IN IF r.res # "ok" THEN r ELSE R("ok", EndLabelF(r.st))

\* push_symbol(sym): "dot" an unescaped '.', "escdot" `\.`, "bracket" `\[`,
\* "ord" printable ASCII, "dec" `\DDD`, "bad" a character that is not an octet
PushSymbolF(s, kind, D) ==
  CASE kind = "dot"     -> IF s.open THEN R("ok", EndLabelF(s)) ELSE R("err", s)
    [] kind = "bracket" -> IF s.open THEN PushF(s, D) ELSE R("err", s)
    [] kind = "bad"     -> R("err", s)
    [] OTHER            -> PushF(s, D)

\* the consuming calls; modelled as observers of the state (the harness
\* applies them to a clone)
NameOut(kind, s1, total, limit) ==
  [kind |-> kind, nlen |-> total,
   valid |-> s1.ok /\ total <= limit /\ \A i \in 1..Len(s1.labs) : s1.labs[i] \in 1..MaxLabel]
FinishF(s) ==
  LET s1 == EndLabelF(s)
  IN [res |-> "ok", st |-> s, out |-> NameOut("rel", s1, s1.len, MaxRel)]
IntoNameF(s) ==
  LET s1 == EndLabelF(s)
  IN [res |-> "ok", st |-> s, out |-> NameOut("abs", s1, s1.len + 1, MaxAbs)]
\* append_origin(absolute name whose non-root labels have lengths org)
AppendOriginF(s, org) ==
  LET s1 == EndLabelF(s)
      total == s1.len + WireOfLens(org) + 1
  IN IF total > MaxAbs THEN [res |-> "err", st |-> s, out |-> NoOut]
     ELSE [res |-> "ok", st |-> s,
           out |-> NameOut("abs", [s1 EXCEPT !.labs = @ \o org], total, MaxAbs)]

Ops == {"push", "append_slice", "end_label", "append_label", "append_name",
        "append_digits", "push_symbol", "finish", "into_name", "append_origin"}
\* ops for which an error must leave the abstract state exactly as it was
AtomicOps == {"push", "append_slice", "append_label", "append_name", "push_symbol"}

\* arg: a sequence of integers (a length, a digit count, label lengths) or
\* the symbol kind
StepF(s, op, arg, D) ==
  CASE op = "push"          -> PushF(s, D)
    [] op = "append_slice"  -> AppendSliceF(s, arg[1], D)
    [] op = "end_label"     -> EndLabelCallF(s)
    [] op = "append_label"  -> AppendLabelF(s, arg[1], D)
    [] op = "append_name"   -> AppendNameF(s, arg, D)
    [] op = "append_digits" -> AppendDigitsF(s, arg[1], D)
    [] op = "push_symbol"   -> PushSymbolF(s, arg, D)
    [] op = "finish"        -> FinishF(s)
    [] op = "into_name"     -> IntoNameF(s)
    [] op = "append_origin" -> AppendOriginF(s, arg)

\* the deviations a call's outcome can depend on
RelDevs(op) ==
  CASE op \in {"push", "append_digits", "push_symbol"} -> {"D_push_253"}
    [] op = "append_slice" -> {"D_slice_new_label_plus1", "D_slice_in_label_no_total",
                               "D_slice_in_label_guard"}
    [] op = "append_label" -> {"D_slice_new_label_plus1"}
    [] op = "append_name"  -> {"D_append_name_open_label"}
    [] OTHER -> {}

---------------------------------------------------------------------------
(* The state machine *)

VARIABLES st,      \* builder state
          last     \* ghost: the last call and what it returned
vars == <<st, last>>

NoCall == [op |-> "new", arg |-> <<>>, res |-> "ok", out |-> NoOut, pre |-> InitSt]

Init == st = InitSt /\ last = NoCall

Do(op, arg) ==
  LET r == StepF(st, op, arg, Dev)
  IN /\ st' = r.st
     /\ last' = [op |-> op, arg |-> arg, res |-> r.res, out |-> r.out, pre |-> st]

Push            == Do("push", <<>>)
AppendSlice(n)  == Do("append_slice", <<n>>)
EndLabel        == Do("end_label", <<>>)
AppendLabel(n)  == Do("append_label", <<n>>)
AppendName(rel) == Do("append_name", rel)
AppendDigits(k) == Do("append_digits", <<k>>)    \* append_dec_u8_label / append_hex_digit_label
PushSymbol(kd)  == Do("push_symbol", kd)
Finish          == Do("finish", <<>>)
IntoName        == Do("into_name", <<>>)
AppendOrigin(o) == Do("append_origin", o)

---------------------------------------------------------------------------
(* The property *)

StructOk(s) == s.ok /\ \A i \in 1..Len(s.labs) : s.labs[i] \in 1..MaxLabel

LimitsOf(s) == /\ s.len <= MaxRel
               /\ s.cur <= MaxLabel
               /\ (s.open => s.cur >= 1)
               /\ (~s.open => s.cur = 0)
               /\ StructOk(s)
Limits == LimitsOf(st)

\* the ghost label list accounts for every octet, and what finish() would
\* return is a valid relative name in the sense of Names.tla
GhostConsistent ==
  st.ok => /\ st.len = WireOfLens(st.labs) + (IF st.open THEN 1 + st.cur ELSE 0)
           /\ ValidRel(LabelsOf(EndLabelF(st).labs))

\* the length octet end_label writes is the number of content octets
LabelOctetMatches ==
  (last.op = "end_label" /\ last.pre.open /\ last.pre.ok)
     => /\ st.ok
        /\ st.labs = Append(last.pre.labs, last.pre.cur)
        /\ st.len = last.pre.len

\* every produced Name / RelativeName is valid
FinishValid == last.out.kind # "none" => last.out.valid

\* no call panics
NoPanic == last.res # "panic"

\* an error leaves the builder as it was (atomic calls) and never grows it
ErrLeavesUnchanged ==
  [][(last'.res # "ok" /\ last'.op \in AtomicOps) => Same(st', st)]_vars
ErrLeavesUsable ==
  [][(last'.res # "ok" /\ LimitsOf(st)) => (LimitsOf(st') /\ st'.len >= st.len)]_vars
\* calls only ever append
Monotone == [][st'.len >= st.len]_vars
=============================================================================
