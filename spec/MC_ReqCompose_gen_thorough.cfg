CONSTANTS
  Dev = {"D_rdata_pointers_verbatim"}
  Small = TRUE
  MaxOps = 3
  KeepHist = TRUE
  Family = "all"
SPECIFICATION GenSpec
INVARIANT Emit
CHECK_DEADLOCK FALSE
