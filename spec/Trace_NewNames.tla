--------------------------- MODULE Trace_NewNames ---------------------------
(* X10, I->S: recorded runs of the real new-API types (random names up to  *)
(* 255 octets in both representations, random compression layouts, texts,  *)
(* octet strings, build buffers, and random LabelBuf programs) must be     *)
(* what NewNames.tla / NewLabelBuf.tla give.  One event per observation    *)
(* (harness/src/newname.rs) with every argument logged.                    *)
EXTENDS NewLabelBuf, Json, IOUtils

Rec == ndJsonDeserialize(IOEnv.TRACE)

VARIABLES l, devs
tvars == <<l, devs, lb, last>>

IsEv(e) == l <= Len(Rec) /\ Rec[l].ev = e /\ l' = l + 1
Range(s) == {s[i] : i \in 1..Len(s)}
\* an observation is the ideal expectation or that of an open deviation
Matches(o, exp, dev) == o = exp \/ \E d \in DOMAIN dev : d \in devs /\ o = dev[d]
Keep == UNCHANGED <<devs, lb, last>>

TInit == l = 1 /\ devs = {} /\ LInit
T_Devs == IsEv("devs") /\ devs' = Range(Rec[l].open) /\ UNCHANGED <<lb, last>>

T_Pair == /\ IsEv("pair") /\ Keep
          /\ LET e == Rec[l] IN
             /\ ValidFwd(e.a) /\ ValidFwd(e.b)
             /\ LET m == AbsOfFwd(e.a)
                    n == AbsOfFwd(e.b)
                    o == [eq |-> e.eq, cmp |-> e.cmp, rcmp |-> e.rcmp, composed |-> e.composed,
                          lcomposed |-> e.lcomposed, hash_ok |-> e.hash_ok, issues |-> e.issues]
                IN Matches(o, PairExp(m, n, {}), PairDev(m, n))

T_Bytes == /\ IsEv("bytes") /\ Keep
           /\ LET e == Rec[l]
                  o == [name |-> e.name, pname |-> e.pname, label |-> e.label, plabel |-> e.plabel,
                        charstr |-> e.charstr, pcharstr |-> e.pcharstr, u16 |-> e.u16, pu16 |-> e.pu16,
                        u32 |-> e.u32, pu32 |-> e.pu32, sp1 |-> e.sp1, psp1 |-> e.psp1, psp1z |-> e.psp1z,
                        sp2 |-> e.sp2, psp2 |-> e.psp2, psp2z |-> e.psp2z, issues |-> e.issues]
              IN Matches(o, BytesExp(e.b, {}), BytesDev(e.b))

T_Msg == /\ IsEv("msg") /\ Keep
         /\ LET e == Rec[l]
                o == [name |-> e.name, pname |-> e.pname, unparsed |-> e.unparsed, label |-> e.label,
                      charstr |-> e.charstr, issues |-> e.issues]
            IN /\ Matches(o, MsgExp(e.c, e.start, {}), MsgDev(e.c, e.start))
               /\ LawMsgName(e.c, e.start)          \* transcription = oracle on the recorded input

T_Text == /\ IsEv("text") /\ Keep
          /\ LET e == Rec[l] IN
             [name |-> e.name, label |-> e.label, issues |-> e.issues] = TextExp(e.s)

T_Show == /\ IsEv("show") /\ Keep
          /\ LET e == Rec[l] IN
             /\ ValidFwd(e.a)
             /\ [text |-> e.text, rev |-> e.rev, labels |-> e.labels, issues |-> e.issues] = ShowExp(AbsOfFwd(e.a))

T_Build == /\ IsEv("build") /\ Keep
           /\ LET e == Rec[l] IN
              [fwd |-> e.fwd, rev |-> e.rev, lower |-> e.lower, label |-> e.label, charstr |-> e.charstr,
               sp1 |-> e.sp1, sp2 |-> e.sp2, u16 |-> e.u16, issues |-> e.issues] = BuildExp(e.a, e.k)

\* the LabelBuf machine: one persistent buffer per recorded program
T_LBuf == /\ IsEv("lbuf") /\ UNCHANGED devs
          /\ LET e == Rec[l] IN
             /\ e.op \in LOps
             /\ LDo(e.op, e.arg)
             /\ StepL(lb, e.op, e.arg).res = e.res
             /\ lb' = e.s
             /\ e.issues = <<>>

TNext == T_Devs \/ T_Pair \/ T_Bytes \/ T_Msg \/ T_Text \/ T_Show \/ T_Build \/ T_LBuf
TSpec == TInit /\ [][TNext]_tvars

Accepted ==
  LET d == TLCGet("stats").diameter
  IN IF d = Len(Rec) + 1 THEN TRUE
     ELSE /\ PrintT("TRACE_REJECTED " \o ToJson([matched |-> d - 1, total |-> Len(Rec),
                      event |-> IF d <= Len(Rec) THEN Rec[d] ELSE [ev |-> "none"]]))
          /\ FALSE
=============================================================================
