CONSTANTS
  Dev = {}
  Mut = {}
  AdvOn = {"ANS", "DS", "DNSKEY"}
  AnchorForms = {"dnskey"}
  Cfgs = {"default"}
  MaxRuns = 1
  EntQKinds = {"positive", "nxdomain", "ds"}
  Budget = 2
  Shapes = {"secure3", "insecure3", "secure4", "insecure4", "entapex_s", "entapex_i", "entname_s", "entname_i"}
  Denials = {"nsec", "nsec3", "optout"}
  QKinds = {"positive", "wildcard", "nodata", "nxdomain", "cname1", "cname2", "ds", "dname", "dnamex", "nxdeep"}
  AdvActs = {"ForgeSigned", "CorruptKey", "CorruptDs", "DropRrset"}
SPECIFICATION Spec
VIEW View







INVARIANT Emit
CHECK_DEADLOCK FALSE
