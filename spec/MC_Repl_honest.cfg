CONSTANTS
  Dev <- EnvDev
  XDev <- XEnvDev
  Hists <- HistsA
  Bases = {14}
  Reqs <- ReqsAll
  Keys = {"good", "wrongsecret", "unknown", "none"}
  OldC <- OldC9
  MaxMsgs = 3
  LaterQ = {TRUE, FALSE}
  FaultKinds = {"flipreq"}
  MaxFaults = 1
  Bursts = {}
  Prim = "scripted"
SPECIFICATION Spec
INVARIANT Replicated
INVARIANT NoPartialInOrder
INVARIANT PublishedLegit
INVARIANT AcceptedIsPrefix
INVARIANT AppliedIsCurrent
INVARIANT KeyMismatchNothing
INVARIANT AlteredRequestNothing
INVARIANT FailureExplained
INVARIANT TamperNoticed
INVARIANT Emit
PROPERTY Terminates
CHECK_DEADLOCK FALSE
