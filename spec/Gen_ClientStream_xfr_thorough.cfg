CONSTANTS
  Dev = {}
  MaxReq = 2
  TickMs = 10000
  StConfs <- St_xfr
  RqCap = 8
  ChanCap = 8
  MaxFrames = 3
  MaxQ = 1
  MaxId = 0
  KaVals = {0}
  XQs = {501, 601}
  XfrIds = {0, 1}
  XfrAll = TRUE
  QVars = {}
  EndKinds = {"eof"}
  MaxOps = 8
  Frames <- GFrames
SPECIFICATION GenSpec
VIEW GenView
ACTION_CONSTRAINT EmitTransition
CHECK_DEADLOCK FALSE
