CONSTANTS
  Dev = {}
  Mut = {}
  Names = {"a.example"}
  Types = {"A"}
  Cases = {0}
  AdVals = {FALSE, TRUE}
  CdVals = {FALSE}
  DoVals = {FALSE, TRUE}
  RdVals = {FALSE, TRUE}
  WithBypass = FALSE
  Classes = {"answer", "err"}
  TtlVecs <- TV_One
  AdBits = {TRUE}
  Ticks = {4000, 5500}
  Configs <- CfgsDefault
  MaxSteps = 6
SPECIFICATION Spec
VIEW View
INVARIANT TypeOK
PROPERTY P_ServedWasSaid
PROPERTY P_AgedExactly
PROPERTY P_NeverStale
PROPERTY P_BoundsRespected
PROPERTY P_NoDnssecLeak
PROPERTY P_NoPanic
CHECK_DEADLOCK FALSE
