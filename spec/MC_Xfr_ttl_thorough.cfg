CONSTANTS
  Dev = {}
  RecU = {1, 2, 5}
  TtlU = {0, 1}
  Styles = {"rfc", "stamped"}
  MaxC = 2
  Kinds = {"axfr", "ixfr1", "fallback"}
  MaxMsgs = 3
  FaultKinds = {"none", "drop", "dup", "swap", "trunc"}
  LaterQ = {FALSE}
SPECIFICATION Spec
INVARIANT StepwiseIsRun
INVARIANT AxfrFidelity
INVARIANT IxfrFidelity
INVARIANT HonestDenotesHistory
INVARIANT DiffApply
INVARIANT PublishedIsLegit
INVARIANT FaultRejectedOrHarmless
INVARIANT RolledBack
CHECK_DEADLOCK FALSE
