------------------------------ MODULE NewNames ------------------------------
(* X10 -- the algebra of the NEW API's names, labels and wire primitives    *)
(* (src/new/base/name/{absolute,reversed,label,unparsed}.rs,                *)
(* src/new/base/wire/{parse,build,ints,size_prefixed}.rs, charstr.rs,       *)
(* serial.rs), as a REFINEMENT of the abstract names of Names.tla.          *)
(*                                                                          *)
(* Properties (quantified over all inputs / pairs / triples / op sequences) *)
(*  P1 Validity and totality.  Every Name / NameBuf / RevName / RevNameBuf /*)
(*     Label / LabelBuf / CharStr(Buf) value obtainable through a safe      *)
(*     constructor, parser (parse_bytes, split_bytes, split_/parse_message_ *)
(*     bytes with compression pointers, parse_str / FromStr), conversion    *)
(*     (forward <-> reversed, copy_from, Clone, build_bytes) or LabelBuf    *)
(*     operation denotes an abstract name n with ValidAbs(n) (label <= 63   *)
(*     octets, name <= 255 octets; a character string <= 255); the parsers  *)
(*     accept EXACTLY the inputs the declarative oracles accept (FromWire;  *)
(*     RawAt + ValidAbs for compressed names; Tokens + groups for text) and *)
(*     answer every other input with an error, never a panic; a refused     *)
(*     LabelBuf operation leaves the buffer unchanged.                      *)
(*  P2 Coherence.  == of Label / Name / RevName / CharStr is ASCII-case-    *)
(*     insensitive label-wise equality (NameEq); a == b => hash a = hash b; *)
(*     Ord of Label, Name and RevName is the RFC 4034 6.1 canonical order   *)
(*     (CanonLabelCmp / CanonNameCmp): a total order consistent with ==,    *)
(*     and the SAME answer through the forward and the reversed             *)
(*     representation; cmp_composed / cmp_lowercase_composed are the octet  *)
(*     orders of the (lower-cased) wire form; labels() iterates both        *)
(*     representations consistently; Display / parse_str round-trip.        *)
(*  P3 Wire primitives.  U16 / U32 / Serial / SizePrefixed<u8|U16, _> /     *)
(*     CharStr: parse o build = id, build o parse = id on valid input,      *)
(*     parse_bytes consumes everything (prefix = exact remaining length),   *)
(*     split_bytes returns the exact remainder, a buffer that is too small  *)
(*     is a TruncationError, a payload too large for its prefix is an error *)
(*     or a panic, never a wrong prefix; Serial follows RFC 1982            *)
(*     (Serial.tla).                                                        *)
(*                                                                          *)
(* Representations of an abstract name n (sequence of non-empty labels,     *)
(* leftmost first, root implicit):                                          *)
(*   FwdRep(n) = len l1 .. len lk 00          (Name, NameBuf: wire format)  *)
(*   RevRep(n) = 00 len lk .. len l1          (RevName, RevNameBuf)         *)
(* Neither representation canonicalises case.  A `Label` of the new API is  *)
(* a label of Names.tla or the root label <<>> (0..63 octets).              *)
(*                                                                          *)
(* Deviations of today's code (D = {} is what the properties demand):       *)
(*  D_fwd_cmp_byte_suffix     Name::cmp answers by LENGTH when the lower-   *)
(*        cased wire form of one name is a byte-suffix of the other's, even *)
(*        if it is not a label-suffix ("z." vs "a\001z.").                  *)
(*  D_sizeprefixed_parse_keeps_prefix   <SizePrefixed<S,T> as ParseBytes>:: *)
(*        parse_bytes hands the WHOLE input (prefix included) to T.         *)
(*  D_msg_start_oob_panic     split_/parse_message_bytes of Label, LabelBuf,*)
(*        CharStr, CharStrBuf (parse_/split_without_compression) and of     *)
(*        &UnparsedName index contents[start..]: start > len panics, where  *)
(*        NameBuf / RevNameBuf / u8 answer ParseError.                      *)
(*  D_unparsed_ptr_offset     <&UnparsedName>::split_message_bytes compares *)
(*        the pointer (a MESSAGE offset) with start (a CONTENTS offset, 12  *)
(*        less): pointers into [start, start+12) are refused and pointers   *)
(*        into the header (< 12) accepted, unlike NameBuf's parser.         *)
(* (C19's D_new_ptr_rule -- a pointer must lie before the START of the label*)
(* run it ends -- is described here as the code is and not re-reported.)    *)
EXTENDS Names, TLC

CONSTANT Dev
DevNames == {"D_fwd_cmp_byte_suffix", "D_sizeprefixed_parse_keeps_prefix",
             "D_msg_start_oob_panic", "D_unparsed_ptr_offset"}

O == INSTANCE Order       \* hash keys, composed orders (C04's vocabulary)

Sign(x) == IF x < 0 THEN -1 ELSE IF x > 0 THEN 1 ELSE 0
Rev(s) == [i \in 1..Len(s) |-> s[Len(s) + 1 - i]]
MinS(S) == CHOOSE x \in S : \A y \in S : x <= y
Fail == [ok |-> FALSE]
Panic == [panic |-> TRUE]

---------------------------------------------------------------------------
(* Representations and abstraction functions                               *)

IsNLabel(l) == Len(l) <= 63 /\ \A i \in 1..Len(l) : l[i] \in Octet
NLabelWire(l) == <<Len(l)>> \o l
FwdRep(n) == ToWireAbs(n)
RevRep(n) == <<0>> \o ToWireRel(Rev(n))

\* LabelIter over a run of well-formed encoded labels: label contents
RECURSIVE LabelsOfRun(_)
LabelsOfRun(w) == IF w = <<>> THEN <<>>
                  ELSE <<SubSeq(w, 2, 1 + w[1])>> \o LabelsOfRun(SubSeq(w, 2 + w[1], Len(w)))
RECURSIVE WellFormedRun(_)
WellFormedRun(w) == w = <<>> \/ (w[1] <= 63 /\ 1 + w[1] <= Len(w)
                                 /\ WellFormedRun(SubSeq(w, 2 + w[1], Len(w))))

ValidFwd(w) == LET r == FromWire(w, 1) IN r.ok /\ r.next = Len(w) + 1
ValidRev(w) == /\ w # <<>> /\ w[1] = 0 /\ Len(w) <= 255 /\ WellFormedRun(Tail(w))
               /\ \A i \in 1..Len(LabelsOfRun(Tail(w))) : LabelsOfRun(Tail(w))[i] # <<>>
AbsOfFwd(w) == LET ls == LabelsOfRun(w) IN SubSeq(ls, 1, Len(ls) - 1)
AbsOfRev(w) == Rev(LabelsOfRun(Tail(w)))

\* refinement laws of the two representations
LawRep(n) ==
  /\ ValidAbs(n) <=> ValidFwd(FwdRep(n))
  /\ ValidAbs(n) <=> ValidRev(RevRep(n))
  /\ Len(FwdRep(n)) = WireLenAbs(n) /\ Len(RevRep(n)) = WireLenAbs(n)
  /\ (\A i \in 1..Len(n) : IsLabel(n[i])) =>
        /\ AbsOfFwd(FwdRep(n)) = n /\ AbsOfRev(RevRep(n)) = n
        \* labels() of the two representations: the same labels, opposite order
        /\ LabelsOfRun(RevRep(n)) = Rev(LabelsOfRun(FwdRep(n)))

---------------------------------------------------------------------------
(* P1: parsers of the uncompressed wire format                             *)

\* Name::split_bytes_by_ref (transcription; off is 0-based)
RECURSIVE SplitNameAt(_, _)
SplitNameAt(b, off) ==
  IF off >= 255 THEN Fail
  ELSE IF off >= Len(b) THEN Fail
  ELSE LET x == b[off + 1] IN
    IF x = 0 THEN [ok |-> TRUE, wire |-> SubSeq(b, 1, off + 1), rest |-> SubSeq(b, off + 2, Len(b))]
    ELSE IF x <= 63 /\ Len(b) - off - 1 >= x THEN SplitNameAt(b, off + 1 + x)
    ELSE Fail
SplitName(b) == SplitNameAt(b, 0)
ParseName(b) == LET r == SplitName(b) IN IF r.ok /\ r.rest = <<>> THEN r ELSE Fail

\* the oracle: FromWire of Names.tla
SplitNameOracle(b) == LET r == FromWire(b, 1) IN
  IF r.ok THEN [ok |-> TRUE, wire |-> SubSeq(b, 1, r.next - 1), rest |-> SubSeq(b, r.next, Len(b))]
  ELSE Fail
LawSplitName(b) == SplitName(b) = SplitNameOracle(b)
                   /\ (SplitName(b).ok => ValidFwd(SplitName(b).wire))

\* <&Label>::split_bytes
SplitLabel(b) ==
  IF b = <<>> THEN Fail
  ELSE IF b[1] < 64 /\ Len(b) > b[1]
       THEN [ok |-> TRUE, label |-> SubSeq(b, 2, 1 + b[1]), rest |-> SubSeq(b, 2 + b[1], Len(b))]
       ELSE Fail
ParseLabel(b) == LET r == SplitLabel(b) IN IF r.ok /\ r.rest = <<>> THEN r ELSE Fail

\* <&CharStr>::split_bytes / parse_bytes
SplitCharStr(b) ==
  IF b = <<>> THEN Fail
  ELSE IF b[1] > Len(b) - 1 THEN Fail
  ELSE [ok |-> TRUE, data |-> SubSeq(b, 2, 1 + b[1]), rest |-> SubSeq(b, 2 + b[1], Len(b))]
ParseCharStr(b) ==
  IF b = <<>> THEN Fail ELSE IF b[1] # Len(b) - 1 THEN Fail
  ELSE [ok |-> TRUE, data |-> Tail(b), rest |-> <<>>]
LawCharStr(b) == (ParseCharStr(b).ok <=> (SplitCharStr(b).ok /\ SplitCharStr(b).rest = <<>>))
                 /\ (SplitCharStr(b).ok => Len(SplitCharStr(b).data) <= 255
                       /\ <<Len(SplitCharStr(b).data)>> \o SplitCharStr(b).data \o SplitCharStr(b).rest = b)

---------------------------------------------------------------------------
(* P1: names inside a message (contents c WITHOUT the 12-octet header;     *)
(* positions are 0-based offsets into c; a pointer value is a MESSAGE      *)
(* offset, i.e. contents offset + 12)                                      *)

HdrLen == 12
SegFail == [ok |-> FALSE, ptr |-> -1, acc |-> <<>>, used |-> 0, rest |-> 0]

\* parse_segment (absolute.rs / reversed.rs: the same control flow; the
\* reversed variant prepends and tests `offset < 2 + l` with offset = 255 - used)
RECURSIVE Segment(_, _, _, _)
Segment(c, p, acc, used) ==
  IF p >= Len(c) THEN SegFail
  ELSE LET b == c[p + 1] IN
    IF b = 0 THEN [ok |-> TRUE, ptr |-> -1, acc |-> acc, used |-> used + 1, rest |-> p + 1]
    ELSE IF b < 64 THEN
      IF Len(c) - p < 1 + b THEN SegFail
      ELSE IF 255 - used < 2 + b THEN SegFail
      ELSE Segment(c, p + 1 + b, Append(acc, SubSeq(c, p + 2, p + 1 + b)), used + 1 + b)
    ELSE IF b >= 192 /\ p + 2 <= Len(c)
      THEN [ok |-> TRUE, ptr |-> (b - 192) * 256 + c[p + 2], acc |-> acc, used |-> used, rest |-> p + 2]
    ELSE SegFail

RECURSIVE Follow(_, _, _)
Follow(c, seg, oldStart) ==
  IF ~seg.ok THEN Fail
  ELSE IF seg.ptr < 0 THEN [ok |-> TRUE, name |-> seg.acc]
  ELSE IF seg.ptr < HdrLen THEN Fail
  ELSE IF seg.ptr - HdrLen >= oldStart THEN Fail
  ELSE Follow(c, Segment(c, seg.ptr - HdrLen, seg.acc, seg.used), seg.ptr - HdrLen)

\* NameBuf / RevNameBuf :: split_message_bytes, parse_message_bytes
SplitMsgName(c, start) ==
  IF start > Len(c) THEN Fail
  ELSE LET s1 == Segment(c, start, <<>>, 0)
           r == Follow(c, s1, start)
       IN IF r.ok THEN [ok |-> TRUE, name |-> r.name, end |-> s1.rest] ELSE Fail
ParseMsgName(c, start) ==
  LET r == SplitMsgName(c, start) IN IF r.ok /\ r.end = Len(c) THEN r ELSE Fail

\* the oracle: RFC 1035 4.1.4 decompression as a recursive definition of
\* "the label list at p" without any length limit, the new API's pointer
\* rule (target >= header, strictly before the start `bound` of the label
\* run the pointer ends), and the limits of Names.tla applied at the end
RawBad == [ok |-> FALSE, labels |-> <<>>, end |-> 0]
RECURSIVE RawAt(_, _, _)
RawAt(c, p, bound) ==
  IF p >= Len(c) THEN RawBad
  ELSE LET b == c[p + 1] IN
    IF b = 0 THEN [ok |-> TRUE, labels |-> <<>>, end |-> p + 1]
    ELSE IF b <= 63 THEN
      IF p + 1 + b > Len(c) THEN RawBad
      ELSE LET r == RawAt(c, p + 1 + b, bound) IN
           IF r.ok THEN [ok |-> TRUE, labels |-> <<SubSeq(c, p + 2, p + 1 + b)>> \o r.labels, end |-> r.end]
           ELSE RawBad
    ELSE IF b >= 192 /\ p + 2 <= Len(c) THEN
      LET t == (b - 192) * 256 + c[p + 2] - HdrLen IN
      IF t < 0 \/ t >= bound THEN RawBad
      ELSE LET r == RawAt(c, t, t) IN
           IF r.ok THEN [ok |-> TRUE, labels |-> r.labels, end |-> p + 2] ELSE RawBad
    ELSE RawBad
MsgNameOracle(c, start) ==
  LET r == RawAt(c, start, start) IN
  IF start <= Len(c) /\ r.ok /\ ValidAbs(r.labels) THEN [ok |-> TRUE, name |-> r.labels, end |-> r.end]
  ELSE Fail
LawMsgName(c, start) ==
  /\ SplitMsgName(c, start) = MsgNameOracle(c, start)
  /\ SplitMsgName(c, start).ok => ValidAbs(SplitMsgName(c, start).name)

\* <&UnparsedName>::split_message_bytes: the labels up to the root or the
\* first pointer, unexpanded; size <= 256
RECURSIVE UnparsedAt(_, _, _, _)
UnparsedAt(c, start, off, D) ==
  IF off >= 255 THEN Fail
  ELSE IF start + off >= Len(c) THEN Fail
  ELSE LET b == c[start + off + 1] IN
    IF b = 0 THEN [ok |-> TRUE, bytes |-> SubSeq(c, start + 1, start + off + 1), end |-> start + off + 1]
    ELSE IF b <= 63 /\ Len(c) - (start + off) - 1 >= b THEN UnparsedAt(c, start, off + 1 + b, D)
    ELSE IF b >= 192 /\ start + off + 2 <= Len(c) THEN
      LET ptr == (b - 192) * 256 + c[start + off + 2]
          bad == IF "D_unparsed_ptr_offset" \in D THEN ptr >= start
                 ELSE ptr < HdrLen \/ ptr - HdrLen >= start
      IN IF bad THEN Fail
         ELSE [ok |-> TRUE, bytes |-> SubSeq(c, start + 1, start + off + 2), end |-> start + off + 2]
    ELSE Fail
UnparsedSplitMsg(c, start, D) ==
  IF start > Len(c) THEN (IF "D_msg_start_oob_panic" \in D THEN Panic ELSE Fail)
  ELSE UnparsedAt(c, start, 0, D)
\* the two message-name readers agree on the admissible first hop: whenever
\* NameBuf's reader accepts, the unparsed reader accepts the same extent
LawUnparsed(c, start) ==
  LET u == UnparsedSplitMsg(c, start, {})
      n == SplitMsgName(c, start)
  IN /\ n.ok => (u.ok /\ u.end = n.end)
     /\ (u.ok => Len(u.bytes) <= 256)

\* Label / CharStr inside a message (no compression)
LabelSplitMsg(c, start, D) ==
  IF start > Len(c) THEN (IF "D_msg_start_oob_panic" \in D THEN Panic ELSE Fail)
  ELSE LET r == SplitLabel(SubSeq(c, start + 1, Len(c))) IN
       IF r.ok THEN [ok |-> TRUE, label |-> r.label, end |-> Len(c) - Len(r.rest)] ELSE Fail
CharStrSplitMsg(c, start, D) ==
  IF start > Len(c) THEN (IF "D_msg_start_oob_panic" \in D THEN Panic ELSE Fail)
  ELSE LET r == SplitCharStr(SubSeq(c, start + 1, Len(c))) IN
       IF r.ok THEN [ok |-> TRUE, data |-> r.data, end |-> Len(c) - Len(r.rest)] ELSE Fail

---------------------------------------------------------------------------
(* P2: equality, order and hash as the code computes them, on the two      *)
(* representations, against the abstract NameEq / CanonNameCmp             *)

\* Name::eq, RevName::eq: octet-wise on the lower-cased representation
RepEqImpl(w1, w2) == LowerSeq(w1) = LowerSeq(w2)
\* Hash: the lower-cased representation octet by octet
RepHashKey(w) == LowerSeq(w)
\* Label: eq on the lower-cased wire, cmp on the lower-cased contents
NLabelEqImpl(a, b) == LowerSeq(NLabelWire(a)) = LowerSeq(NLabelWire(b))
NLabelCmpImpl(a, b) == LexCmp(LowerSeq(a), LowerSeq(b))
NLabelHashKey(a) == LowerSeq(NLabelWire(a))

\* RevName::cmp: lexicographic over labels() (root first) with Label::cmp
RECURSIVE LexLabels(_, _, _)
LexLabels(x, y, i) ==
  IF i > Len(x) /\ i > Len(y) THEN 0
  ELSE IF i > Len(x) THEN -1
  ELSE IF i > Len(y) THEN 1
  ELSE LET c == NLabelCmpImpl(x[i], y[i]) IN IF c # 0 THEN c ELSE LexLabels(x, y, i + 1)
RevCmpImpl(r1, r2) == LexLabels(LabelsOfRun(r1), LabelsOfRun(r2), 1)

\* Name::cmp (absolute.rs): shared byte suffix, then forward lock-step walk.
\* i, j: 0-based offsets of `remaining`; pi, pj: offsets of the `prev` labels
LabelAtOff(w, p) == SubSeq(w, p + 2, p + 1 + w[p + 1])
RECURSIVE FwdCmpLoop(_, _, _, _, _, _, _)
FwdCmpLoop(w1, w2, i, j, pi, pj, sl) ==
  LET llen == Len(w1) - i
      rlen == Len(w2) - j
  IN IF llen = rlen /\ llen <= sl
     THEN NLabelCmpImpl(LabelAtOff(w1, pi), LabelAtOff(w2, pj))
     ELSE IF llen > rlen THEN FwdCmpLoop(w1, w2, i + 1 + w1[i + 1], j, i, pj, sl)
     ELSE FwdCmpLoop(w1, w2, i, j + 1 + w2[j + 1], pi, j, sl)
FwdCmpImpl(w1, w2) ==
  LET a == LowerSeq(w1)
      b == LowerSeq(w2)
      m == Min(Len(a), Len(b))
      mism == {k \in 0..(m - 1) : a[Len(a) - k] # b[Len(b) - k]}
  IN IF mism = {} THEN Sign(Len(a) - Len(b))
     ELSE FwdCmpLoop(w1, w2, 1 + w1[1], 1 + w2[1], 0, 0, MinS(mism))

\* the guard of D_fwd_cmp_byte_suffix: one lower-cased wire form is a proper
\* byte-suffix of the other without the name being a label-suffix
IsByteSuffix(s, t) == Len(s) <= Len(t) /\ SubSeq(t, Len(t) - Len(s) + 1, Len(t)) = s
ByteSuffixOnly(m, n) ==
  LET a == LowerSeq(FwdRep(m))
      b == LowerSeq(FwdRep(n))
  IN \/ (IsByteSuffix(a, b) /\ ~IsSuffixOf(m, n))
     \/ (IsByteSuffix(b, a) /\ ~IsSuffixOf(n, m))

\* what Name::cmp answers under deviations D
FwdCmp(m, n, D) == IF "D_fwd_cmp_byte_suffix" \in D THEN FwdCmpImpl(FwdRep(m), FwdRep(n))
                   ELSE CanonNameCmp(m, n)

LawPair(m, n) ==
  /\ RepEqImpl(FwdRep(m), FwdRep(n)) = NameEq(m, n)
  /\ RepEqImpl(RevRep(m), RevRep(n)) = NameEq(m, n)
  /\ (NameEq(m, n) <=> RepHashKey(FwdRep(m)) = RepHashKey(FwdRep(n)))
  /\ (NameEq(m, n) <=> RepHashKey(RevRep(m)) = RepHashKey(RevRep(n)))
  /\ RepHashKey(FwdRep(m)) = O!NameHashKey(m)
  /\ RevCmpImpl(RevRep(m), RevRep(n)) = CanonNameCmp(m, n)
  \* the transcription of Name::cmp is the canonical order except exactly
  \* under the guard of the deviation, where it answers by length
  /\ (~ByteSuffixOnly(m, n) => FwdCmpImpl(FwdRep(m), FwdRep(n)) = CanonNameCmp(m, n))
  /\ (ByteSuffixOnly(m, n) => FwdCmpImpl(FwdRep(m), FwdRep(n)) = Sign(WireLenAbs(m) - WireLenAbs(n)))
  /\ CanonNameCmp(m, n) = 0 - CanonNameCmp(n, m)
  /\ (CanonNameCmp(m, n) = 0 <=> NameEq(m, n))
\* forward and reversed representation give the same answer (P2); violated
\* by today's code exactly under D_fwd_cmp_byte_suffix
LawFwdRevAgree(m, n, D) == FwdCmp(m, n, D) = RevCmpImpl(RevRep(m), RevRep(n))

LawLabelPair(a, b) ==
  /\ NLabelEqImpl(a, b) = (LowerSeq(a) = LowerSeq(b))
  /\ (NLabelEqImpl(a, b) <=> NLabelHashKey(a) = NLabelHashKey(b))
  /\ (NLabelCmpImpl(a, b) = 0 <=> NLabelEqImpl(a, b))
  /\ NLabelCmpImpl(a, b) = 0 - NLabelCmpImpl(b, a)
  /\ (a # <<>> /\ b # <<>> => NLabelCmpImpl(a, b) = CanonLabelCmp(a, b)
                               /\ NLabelHashKey(a) = O!LabelHashKey(a))
  /\ (a = <<>> /\ b # <<>> => NLabelCmpImpl(a, b) = -1)      \* the root label sorts first

\* character strings: == folds case, the hash feeds length + folded octets
CharStrEqImpl(a, b) == LowerSeq(a) = LowerSeq(b)
CharStrHashKeyImpl(a) == <<Len(a)>> \o LowerSeq(a)
LawCharStrPair(a, b) == /\ CharStrEqImpl(a, b) = O!CharStrEq(a, b)
                        /\ (CharStrEqImpl(a, b) <=> CharStrHashKeyImpl(a) = CharStrHashKeyImpl(b))

---------------------------------------------------------------------------
(* P2: text.  Display writes label octets as themselves (Unesc), `\X`      *)
(* (other graphic ASCII) or `\DDD`; a name is its labels each followed by  *)
(* "." (the root name is the empty string; "." alone is NOT accepted:      *)
(* parse_str is documented as the inverse of Display).                     *)

Unesc == (65..90) \cup (97..122) \cup (48..57)
         \cup {33, 35, 36, 37, 38, 39, 42, 43, 44, 45, 94, 95, 96, 123, 124, 125, 126}
IsGraphic(b) == b >= 33 /\ b <= 126
IsDigit(b) == b >= 48 /\ b <= 57
ShowByte(b) == IF b \in Unesc THEN <<b>>
               ELSE IF IsGraphic(b) THEN <<92, b>>
               ELSE <<92, 48 + (b \div 100), 48 + ((b \div 10) % 10), 48 + (b % 10)>>
ShowLabel(l) == Concat([i \in 1..Len(l) |-> ShowByte(l[i])])
ShowName(n) == Concat([i \in 1..Len(n) |-> ShowLabel(n[i]) \o <<46>>])

TE(e) == [ok |-> FALSE, err |-> e, label |-> <<>>, pos |-> 0]
\* LabelBuf::parse_str (split = FALSE) / split_str (split = TRUE); p is the
\* 1-based index of the next character; result pos = index of the rest
RECURSIVE LabelStr(_, _, _, _)
LabelStr(s, p, acc, split) ==
  IF p > Len(s) THEN (IF split THEN TE("ShortInput") ELSE [ok |-> TRUE, err |-> "", label |-> acc, pos |-> p])
  ELSE LET b == s[p] IN
    IF b \in Unesc THEN (IF Len(acc) >= 63 THEN TE("Overlong") ELSE LabelStr(s, p + 1, Append(acc, b), split))
    ELSE IF b = 92 THEN
      IF p + 1 > Len(s) THEN TE(IF split THEN "ShortInput" ELSE "PartialEscape")
      ELSE LET d == s[p + 1] IN
        IF IsDigit(d) THEN
          IF p + 3 > Len(s) THEN TE(IF split THEN "ShortInput" ELSE "PartialEscape")
          ELSE IF ~IsDigit(s[p + 2]) \/ ~IsDigit(s[p + 3]) THEN TE("InvalidEscape")
          ELSE LET v == (d - 48) * 100 + (s[p + 2] - 48) * 10 + (s[p + 3] - 48) IN
            IF v > 255 THEN TE("InvalidEscape")
            ELSE IF Len(acc) >= 63 THEN TE("Overlong")
            ELSE LabelStr(s, p + 4, Append(acc, v), split)
        ELSE IF IsGraphic(d) THEN (IF Len(acc) >= 63 THEN TE("Overlong")
                                   ELSE LabelStr(s, p + 2, Append(acc, d), split))
        ELSE TE("InvalidEscape")
    ELSE IF split THEN [ok |-> TRUE, err |-> "", label |-> acc, pos |-> p]
    ELSE TE("InvalidChar")
ParseLabelStr(s) == LET r == LabelStr(s, 1, <<>>, FALSE) IN
                    IF r.ok THEN [ok |-> TRUE, label |-> r.label] ELSE Fail

\* NameBuf::parse_str
RECURSIVE NameStr(_, _, _, _)
NameStr(s, p, labs, size) ==
  LET r0 == LabelStr(s, p, <<>>, TRUE)
      r == IF ~r0.ok /\ r0.err = "ShortInput" THEN LabelStr(s, p, <<>>, FALSE) ELSE r0
  IN IF ~r.ok THEN Fail
     ELSE IF 255 - size < 1 + Len(r.label) THEN Fail
     ELSE IF r.pos <= Len(s) /\ s[r.pos] = 46
          THEN (IF r.label = <<>> THEN Fail
                ELSE NameStr(s, r.pos + 1, Append(labs, r.label), size + 1 + Len(r.label)))
     ELSE IF r.pos <= Len(s) THEN Fail
     ELSE IF r.label = <<>> THEN [ok |-> TRUE, name |-> labs]
     ELSE Fail
ParseNameStr(s) == NameStr(s, 1, <<>>, 0)

\* the oracle: tokenise the whole text, then group at the unescaped dots
TokBad == <<[bad |-> TRUE, dot |-> FALSE, v |-> 0]>>
RECURSIVE Tokens(_, _)
Tokens(s, p) ==
  IF p > Len(s) THEN <<>>
  ELSE LET b == s[p] IN
    IF b = 46 THEN <<[bad |-> FALSE, dot |-> TRUE, v |-> 0]>> \o Tokens(s, p + 1)
    ELSE IF b \in Unesc THEN <<[bad |-> FALSE, dot |-> FALSE, v |-> b]>> \o Tokens(s, p + 1)
    ELSE IF b = 92 /\ p + 3 <= Len(s) /\ IsDigit(s[p + 1]) /\ IsDigit(s[p + 2]) /\ IsDigit(s[p + 3])
              /\ (s[p + 1] - 48) * 100 + (s[p + 2] - 48) * 10 + (s[p + 3] - 48) <= 255
      THEN <<[bad |-> FALSE, dot |-> FALSE,
              v |-> (s[p + 1] - 48) * 100 + (s[p + 2] - 48) * 10 + (s[p + 3] - 48)]>> \o Tokens(s, p + 4)
    ELSE IF b = 92 /\ p + 1 <= Len(s) /\ IsGraphic(s[p + 1]) /\ ~IsDigit(s[p + 1])
      THEN <<[bad |-> FALSE, dot |-> FALSE, v |-> s[p + 1]]>> \o Tokens(s, p + 2)
    ELSE TokBad
TextOracle(s) ==
  LET t == Tokens(s, 1)
      dots == {i \in 1..Len(t) : t[i].dot}
      prevDot(i) == IF {j \in dots : j < i} = {} THEN 0 ELSE CHOOSE j \in dots : j < i /\ \A k \in dots : k < i => k <= j
      ds == O!SortSet(dots)
      n == [k \in 1..Len(ds) |-> [x \in 1..(ds[k] - prevDot(ds[k]) - 1) |-> t[prevDot(ds[k]) + x].v]]
  IN IF \E i \in 1..Len(t) : t[i].bad THEN Fail
     ELSE IF Len(t) > 0 /\ ~t[Len(t)].dot THEN Fail                 \* relative
     ELSE IF \E k \in 1..Len(n) : n[k] = <<>> THEN Fail             \* empty label
     ELSE IF ~ValidAbs(n) THEN Fail
     ELSE [ok |-> TRUE, name |-> n]
LawText(s) == ParseNameStr(s) = TextOracle(s)
LawShow(n) == ValidAbs(n) =>
  /\ ParseNameStr(ShowName(n)) = [ok |-> TRUE, name |-> n]
  /\ \A i \in 1..Len(ShowName(n)) : IsGraphic(ShowName(n)[i])
  /\ \A k \in 1..Len(n) : ParseLabelStr(ShowLabel(n[k])) = [ok |-> TRUE, label |-> n[k]]

---------------------------------------------------------------------------
(* P3: wire primitives.  W = width of the size prefix in octets (1: u8,    *)
(* 2: U16); the payload is an octet string.                                *)

EncN(W, v) == IF W = 1 THEN EncU8(v) ELSE EncU16(v)
DecN(W, b) == IF W = 1 THEN b[1] ELSE U16At(b, 1)
MaxN(W) == IF W = 1 THEN 255 ELSE 65535

\* U16 / U32 / Serial: parse_bytes, split_bytes, build_bytes(buffer of k octets)
IntParse(W, b) == IF Len(b) = W THEN [ok |-> TRUE, v |-> b, rest |-> <<>>] ELSE Fail
IntSplit(W, b) == IF Len(b) >= W THEN [ok |-> TRUE, v |-> SubSeq(b, 1, W), rest |-> SubSeq(b, W + 1, Len(b))]
                  ELSE Fail
\* building x (an octet string of known size) into a buffer of k octets:
\* the octets written and the length of the returned remainder
Build(x, k) == IF k >= Len(x) THEN [ok |-> TRUE, out |-> x, rest |-> k - Len(x)] ELSE Fail

SpSplit(W, b) ==
  IF Len(b) < W THEN Fail
  ELSE LET sz == DecN(W, b) IN
    IF Len(b) - W < sz THEN Fail
    ELSE [ok |-> TRUE, data |-> SubSeq(b, W + 1, W + sz), rest |-> SubSeq(b, W + sz + 1, Len(b))]
SpParse(W, b, D) ==
  IF Len(b) < W THEN Fail
  ELSE IF Len(b) - W # DecN(W, b) THEN Fail
  ELSE [ok |-> TRUE, rest |-> <<>>,
        data |-> IF "D_sizeprefixed_parse_keeps_prefix" \in D THEN b ELSE SubSeq(b, W + 1, Len(b))]
SpWire(W, data) == EncN(W, Len(data)) \o data
\* build: the prefix must be able to hold the size (otherwise: an error or
\* a panic -- `big`), the buffer must hold prefix + payload
SpBuild(W, data, k) ==
  IF k < W + Len(data) THEN Fail              \* (too small wins: the payload is written first)
  ELSE IF Len(data) > MaxN(W) THEN [big |-> TRUE]
  ELSE [ok |-> TRUE, out |-> SpWire(W, data), rest |-> k - W - Len(data)]
LawSizePrefixed(W, b) ==
  /\ (SpParse(W, b, {}).ok <=> (SpSplit(W, b).ok /\ SpSplit(W, b).rest = <<>>))
  /\ (SpParse(W, b, {}).ok => SpWire(W, SpParse(W, b, {}).data) = b)            \* build o parse = id
  /\ (SpSplit(W, b).ok => SpWire(W, SpSplit(W, b).data) \o SpSplit(W, b).rest = b)
LawSizePrefixedData(W, d) ==
  Len(d) <= MaxN(W) => /\ SpParse(W, SpWire(W, d), {}) = [ok |-> TRUE, rest |-> <<>>, data |-> d]
                       /\ SpSplit(W, SpWire(W, d) \o <<7>>) = [ok |-> TRUE, data |-> d, rest |-> <<7>>]

---------------------------------------------------------------------------
(* Expected observations of the executor / recorder (harness/src/newname.rs) *)
NoIssues == <<>>
Ok3(r, f) == IF r.ok THEN f ELSE Fail
DevMap(ideal, alts) == [d \in {e \in DOMAIN alts : alts[e] # ideal} |-> alts[d]]

PairExp(m, n, D) ==
  [eq |-> NameEq(m, n), cmp |-> FwdCmp(m, n, D), rcmp |-> RevCmpImpl(RevRep(m), RevRep(n)),
   composed |-> O!NameComposedCmp(m, n), lcomposed |-> O!NameLowerComposedCmp(m, n),
   hash_ok |-> TRUE, issues |-> NoIssues]
NameObs(r) == IF r.ok THEN [ok |-> TRUE, wire |-> r.wire, rev |-> RevRep(AbsOfFwd(r.wire)), rest |-> r.rest] ELSE Fail
LabelObs(r) == IF r.ok THEN [ok |-> TRUE, label |-> r.label, rest |-> r.rest] ELSE Fail
DataObs(r) == IF r.ok THEN [ok |-> TRUE, data |-> r.data, rest |-> r.rest] ELSE Fail
IntObs(r) == IF r.ok THEN [ok |-> TRUE, v |-> r.v, rest |-> r.rest] ELSE Fail
BytesExp(b, D) ==
  [name |-> NameObs(SplitName(b)), pname |-> ParseName(b).ok,
   label |-> LabelObs(SplitLabel(b)), plabel |-> ParseLabel(b).ok,
   charstr |-> DataObs(SplitCharStr(b)), pcharstr |-> ParseCharStr(b).ok,
   u16 |-> IntObs(IntSplit(2, b)), pu16 |-> IntParse(2, b).ok,
   u32 |-> IntObs(IntSplit(4, b)), pu32 |-> IntParse(4, b).ok,
   sp1 |-> DataObs(SpSplit(1, b)), psp1 |-> DataObs(SpParse(1, b, D)), psp1z |-> DataObs(SpParse(1, b, {})),
   sp2 |-> DataObs(SpSplit(2, b)), psp2 |-> DataObs(SpParse(2, b, D)), psp2z |-> DataObs(SpParse(2, b, {})),
   issues |-> NoIssues]
PObs(r) == IF "panic" \in DOMAIN r THEN r ELSE IF r.ok THEN r ELSE Fail
MsgExp(c, st, D) ==
  LET n == SplitMsgName(c, st) IN
  [name |-> IF n.ok THEN [ok |-> TRUE, wire |-> FwdRep(n.name), end |-> n.end] ELSE Fail,
   pname |-> ParseMsgName(c, st).ok,
   unparsed |-> PObs(UnparsedSplitMsg(c, st, D)),
   label |-> PObs(LabelSplitMsg(c, st, D)),
   charstr |-> PObs(CharStrSplitMsg(c, st, D)),
   issues |-> NoIssues]
BObs(r) == IF "big" \in DOMAIN r THEN r ELSE IF r.ok THEN r ELSE Fail

TextExp(s) ==
  [name |-> LET r == ParseNameStr(s) IN IF r.ok THEN [ok |-> TRUE, wire |-> FwdRep(r.name)] ELSE Fail,
   label |-> ParseLabelStr(s), issues |-> NoIssues]
ShowExp(n) == [text |-> ShowName(n), rev |-> RevRep(n), labels |-> LabelsOfRun(FwdRep(n)), issues |-> NoIssues]
BuildExp(w, k) ==
  [fwd |-> BObs(Build(w, k)), rev |-> BObs(Build(w, k)), lower |-> BObs(Build(LowerSeq(w), k)),
   label |-> BObs(Build(SubSeq(w, 1, 1 + w[1]), k)),
   charstr |-> BObs(Build(<<Len(w)>> \o w, k)),
   sp1 |-> BObs(SpBuild(1, w, k)), sp2 |-> BObs(SpBuild(2, w, k)),
   u16 |-> BObs(Build(EncU16(Len(w) * 257), k)), issues |-> NoIssues]
PairDev(m, n) == DevMap(PairExp(m, n, {}), [D_fwd_cmp_byte_suffix |-> PairExp(m, n, {"D_fwd_cmp_byte_suffix"})])
BytesDev(b) == DevMap(BytesExp(b, {}),
        [D_sizeprefixed_parse_keeps_prefix |-> BytesExp(b, {"D_sizeprefixed_parse_keeps_prefix"})])
MsgDev(c, st) == DevMap(MsgExp(c, st, {}),
        [D_msg_start_oob_panic |-> MsgExp(c, st, {"D_msg_start_oob_panic"}),
         D_unparsed_ptr_offset |-> MsgExp(c, st, {"D_unparsed_ptr_offset"})])
=============================================================================
