CONSTANTS
  Dev = {}
  Mut = {}
  AdvOn = {"ANS", "DS", "DNSKEY"}
  AnchorForms = {"dnskey"}
  Cfgs = {"default"}
  MaxRuns = 3
  EntQKinds = {"positive"}
  Budget = 1
  Shapes = {"secure3", "secure4", "entapex_s"}
  Denials = {"nsec", "nsec3"}
  QKinds = {"positive", "nxdeep", "nxdomain"}
  AdvActs = {"TimePasses", "Resalt", "ShortSig"}
SPECIFICATION Spec
VIEW View
INVARIANT Soundness
INVARIANT HonestSecure
INVARIANT InsecureNotBogus
INVARIANT WithinAllowed
INVARIANT CacheTransparent
INVARIANT NoPanic
INVARIANT Terminates
INVARIANT NoAnchorNotSecure
INVARIANT LimitsEnforced
INVARIANT Emit
CHECK_DEADLOCK TRUE
