CONSTANTS
  Dev = {"D_ptr_limit_c000"}
SPECIFICATION TSpec
INVARIANT TraceInv
POSTCONDITION Accepted
CHECK_DEADLOCK FALSE
