CONSTANTS
  Dev = {}
  MaxOps = 0
  Deep = FALSE
  Carrier = "builder"
  MaxHist = 3
  GKind = "beh"
  GWords <- QuickWords
SPECIFICATION BehSpec
INVARIANT BehEmit
CHECK_DEADLOCK FALSE
