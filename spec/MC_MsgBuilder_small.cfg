CONSTANTS
  Dev = {}
  Scenario = "small"
  MaxOps = 3
  CompSet = {"none", "static", "tree", "hash"}
  TgtSet = {"array", "stream", "sarray"}
SPECIFICATION Spec
INVARIANT ParseBack
INVARIANT CountsMatch
INVARIANT PointersBackwardAndIntended
INVARIANT ShimMatches
INVARIANT TableWithinBuffer
INVARIANT TableSound
INVARIANT WithinCapacity
INVARIANT HeaderKept
PROPERTY NoopProp
INVARIANT Emit
CHECK_DEADLOCK FALSE
