---------------------------- MODULE Trace_Tsig ----------------------------
(***************************************************************************)
(* I->S: a recorded run of the real domain::tsig API (record_tsig: random  *)
(* keys, messages, clocks, tampering; one event per public call, all       *)
(* octets logged) must be a behaviour of the machines of Tsig.tla.         *)
(*                                                                         *)
(* TLC cannot compute HMACs.  Every signing event therefore carries        *)
(* `digest' - octets which, fed to an independent HMAC, reproduce the MAC  *)
(* the library put on the wire (the recorder checks that with ring) - and  *)
(* `full', that HMAC.  TLC checks the LAYOUT: digest must equal the octets *)
(* the specification feeds to HMAC for the logged message and state, the   *)
(* wire must be the specification's encoding of the signed message, and    *)
(* every verification result must be the specification's (MAC table        *)
(* lookup).  Dev = the deviations the code is assumed to have (the check   *)
(* tries {} first).                                                        *)
(***************************************************************************)
EXTENDS Tsig, TLC, Json, IOUtils

Rec == ndJsonDeserialize(IOEnv.TRACE)

VARIABLES l, k, cli, srv, rfc, macs, fl, pre, g
tvars == <<l, k, cli, srv, rfc, macs, fl, pre, g>>

IsEv(e) == l <= Len(Rec) /\ Rec[l].ev = e /\ l' = l + 1
Ev == Rec[l]

MkMsg(o) == [hdr |-> SubSeq(o, 1, 12), body |-> SubSeq(o, 13, Len(o)), recs |-> <<>>]
NoMsg == MkMsg(<<0, 0, 0, 0, 0, 0, 0, 0, 0, 0, 0, 0>>)
K0 == [c |-> [name |-> <<0>>, alg |-> "sha256", sec |-> 1, slen |-> 32, minlen |-> 32],
       s |-> [name |-> <<0>>, alg |-> "sha256", sec |-> 1, slen |-> 32, minlen |-> 32],
       mode |-> "txn"]
G0 == [req |-> NoMsg, err |-> "", etime |-> 0, efudge |-> 0, tampered |-> FALSE, ok |-> TRUE, rep |-> 1]

TInit == /\ l = 1 /\ k = K0
         /\ cli = [ctx |-> <<>>, first |-> TRUE, unsigned |-> 0]
         /\ srv = [ctx |-> <<>>, first |-> TRUE]
         /\ rfc = [prior |-> <<>>, pending |-> <<>>, first |-> TRUE]
         /\ macs = <<>> /\ fl = NoMsg /\ pre = <<>> /\ g = G0

\* a new exchange: keys of both sides (names as each side spells them)
T_New ==
  /\ IsEv("new")
  /\ k' = [c |-> [name |-> Ev.cname, alg |-> Ev.alg, sec |-> 1, slen |-> Ev.cs, minlen |-> Ev.cm],
           s |-> [name |-> Ev.sname, alg |-> Ev.alg, sec |-> 1, slen |-> Ev.ss, minlen |-> Ev.sm],
           mode |-> Ev.mode]
  /\ cli' = [ctx |-> <<>>, first |-> TRUE, unsigned |-> 0]
  /\ srv' = [ctx |-> <<>>, first |-> TRUE]
  /\ rfc' = [prior |-> <<>>, pending |-> <<>>, first |-> TRUE]
  /\ macs' = <<>> /\ fl' = NoMsg /\ pre' = <<>> /\ g' = G0

\* Key::new / Key::generate with arbitrary lengths (-1 = None)
T_KeyNew ==
  /\ IsEv("key_new")
  /\ LET r == KeyNewStep(Ev.alg, Ev.min, Ev.sign)
         bad(n) == n # -1 /\ ~RfcLenOk(Ev.alg, n)
     IN \* which of the two errors is reported when both lengths are out of range is not specified
        /\ (r.res = Ev.res \/ (bad(Ev.min) /\ bad(Ev.sign) /\ Ev.res \in {"BadMinMacLen", "BadSigningLen"}))
        /\ r.minlen = Ev.minlen /\ r.slen = Ev.slen
        \* RFC 8945 5.2.2.1, whatever the transcription says
        /\ (Ev.res = "Ok" => RfcLenOk(Ev.alg, Ev.minlen) /\ RfcLenOk(Ev.alg, Ev.slen))
  /\ UNCHANGED <<k, cli, srv, rfc, macs, fl, pre, g>>
\* Algorithm::from_name / FromStr: a name maps to an algorithm only if it is
\* that algorithm's name (`back': to_name / Display give the name back)
T_AlgName ==
  /\ IsEv("alg_name")
  /\ Ev.res \in AlgFromNameRfc(Ev.name) /\ Ev.back
  /\ (AlgFromName(Ev.name) # "none" => Ev.res = AlgFromName(Ev.name))
  /\ UNCHANGED <<k, cli, srv, rfc, macs, fl, pre, g>>
T_AlgStr ==
  /\ IsEv("alg_str")
  /\ Ev.res \in AlgFromStrRfc(Ev.s) /\ Ev.back
  /\ (AlgFromStr(Ev.s) # "none" => Ev.res = AlgFromStr(Ev.s))
  /\ UNCHANGED <<k, cli, srv, rfc, macs, fl, pre, g>>

\* layout + encoding of a signing step r against the event
Signed(r) == r.data = Ev.digest /\ Wire(r.msg) = Ev.wire

T_CRequest ==
  /\ IsEv("c_request")
  /\ LET r == ClientRequestStep(k.c, MkMsg(Ev.pre), Ev.now, Ev.fudge, macs, Ev.full)
     IN /\ Signed(r)
        /\ r.data = DigestReq(k.c.name, AlgWire(k.c.alg), r.msg)     \* the declarative layout
        /\ macs' = r.tbl
        /\ cli' = [ctx |-> r.ctx, first |-> TRUE, unsigned |-> 0]
        /\ fl' = r.msg
  /\ pre' = Ev.pre
  /\ UNCHANGED <<k, srv, rfc, g>>

\* what the network delivers (possibly tampered with): the recorder's
\* structured view must encode to the octets it handed to the library
T_Net ==
  /\ IsEv("net")
  /\ Wire(Ev.msg) = Ev.wire
  /\ fl' = Ev.msg
  /\ g' = [g EXCEPT !.tampered = Ev.tampered, !.rep = Ev.rep]
  /\ UNCHANGED <<k, cli, srv, rfc, macs, pre>>

\* the message after a successful verification: TSIG gone, original ID; the
\* octets up to the end of the message are those before signing
Restored(m, after) ==
  /\ Take(after, Len(Wire(m))) = Wire(m)
  /\ (~g.tampered => Take(after, Len(pre)) = pre)

\* where the RFC leaves two answers (DESIGN 7): a MAC below the RFC minimum is
\* BADTRUNC or FORMERR; a MAC longer than the algorithm's output is FORMERR or BADSIG
LongMac(m, alg) == FromMessage(m) = "Found" /\ Len(LastRec(m).mac) > Native(alg)
ShortMac(m, alg) == FromMessage(m) = "Found" /\ Len(LastRec(m).mac) < RfcMinLen(alg)
ResOk(spec, obs, m, alg) ==
  \/ obs = spec
  \/ spec \in {"BADSIG", "BadSig"} /\ LongMac(m, alg) /\ obs = (IF spec = "BADSIG" THEN "FORMERR" ELSE "FormErr")
  \/ spec \in {"BADTRUNC", "BadTrunc"} /\ ShortMac(m, alg) /\ obs = (IF spec = "BADTRUNC" THEN "FORMERR" ELSE "FormErr")

T_SRequest ==
  /\ IsEv("s_request")
  /\ LET r == ServerRequestStep(k.s, fl, Ev.now, macs)
     IN /\ ResOk(r.res, Ev.res, fl, k.s.alg)
        /\ (r.res = "Ok" => Restored(r.msg, Ev.after))
        /\ srv' = [ctx |-> r.ctx, first |-> TRUE]
        /\ rfc' = [prior |-> IF r.res = "Ok" THEN LastRec(fl).mac ELSE <<>>, pending |-> <<>>, first |-> TRUE]
        /\ g' = [g EXCEPT !.req = fl, !.err = Ev.res, !.etime = r.etime, !.efudge = r.efudge]
  /\ UNCHANGED <<k, cli, macs, fl, pre>>

T_SError ==
  /\ IsEv("s_error")
  /\ IF g.err = "BADTIME"
     THEN LET r == ServerErrSignedStep(k.s, srv.ctx, MkMsg(Ev.pre), g.etime, g.efudge, Ev.now, macs, Ev.full)
          IN Ev.res = "Ok" /\ Signed(r) /\ macs' = r.tbl /\ fl' = r.msg
     ELSE LET code == CASE g.err = "BADSIG" -> BADSIG [] g.err = "BADKEY" -> BADKEY
                        [] g.err = "BADTRUNC" -> BADTRUNC [] OTHER -> FORMERR
              r == ServerErrUnsignedStep(g.req, MkMsg(Ev.pre), code, Ev.rtime, Ev.rfudge)
          IN /\ macs' = macs
             /\ IF r.tsig THEN Ev.res = "Ok" /\ Wire(r.msg) = Ev.wire /\ fl' = r.msg
                ELSE Ev.res = (IF r.panic THEN "panic" ELSE "NoPanic") /\ fl' = fl
  /\ pre' = Ev.pre
  /\ UNCHANGED <<k, cli, srv, rfc, g>>

T_SAnswer ==
  /\ IsEv("s_answer")
  /\ LET m == MkMsg(Ev.pre)
         r == IF k.mode = "txn" THEN ServerAnswerStep(k.s, srv.ctx, m, Ev.now, Ev.fudge, macs, Ev.full)
              ELSE ServerSeqAnswerStep(k.s, srv.ctx, srv.first, m, Ev.now, Ev.fudge, macs, Ev.full)
     IN /\ Signed(r)
        /\ macs' = r.tbl
        /\ srv' = [ctx |-> r.ctx, first |-> FALSE]
        /\ fl' = r.msg
  /\ pre' = Ev.pre
  /\ UNCHANGED <<k, cli, rfc, g>>

\* the recorder's own RFC 8945 responder
T_RfcAnswer ==
  /\ IsEv("rfc_answer")
  /\ LET r == RfcSignStepE(k.s, rfc, MkMsg(Ev.pre), Ev.now, Ev.fudge, Ev.err, Ev.other, macs, Ev.full)
     IN Signed(r) /\ macs' = r.tbl /\ rfc' = r.rs /\ fl' = r.msg
  /\ pre' = Ev.pre
  /\ UNCHANGED <<k, cli, srv, g>>
T_RfcUnsigned ==
  /\ IsEv("rfc_unsigned")
  /\ rfc' = RfcUnsignedStep(rfc, MkMsg(Ev.pre), Ev.n)
  /\ fl' = MkMsg(Ev.pre)
  /\ pre' = Ev.pre
  /\ UNCHANGED <<k, cli, srv, macs, g>>

T_CAnswer ==
  /\ IsEv("c_answer")
  /\ LET signed == FromMessage(fl) # "Missing"
         r == IF k.mode = "txn"
              THEN LET x == ClientAnswerStep(k.c, cli.ctx, fl, Ev.now, macs)
                   IN [res |-> x.res, msg |-> x.msg, cs |-> cli, left |-> 0]
              ELSE ClientSeqRepeat(k.c, cli, fl, Ev.now, macs, g.rep)
     IN /\ ResOk(r.res, Ev.res, fl, k.c.alg) /\ r.left = Ev.left
        /\ ((Ev.res = "Ok" /\ signed) => Restored(r.msg, Ev.after))
        /\ cli' = r.cs
  /\ UNCHANGED <<k, srv, rfc, macs, fl, pre, g>>

T_CDone ==
  /\ IsEv("c_done")
  /\ ClientDoneRes(cli) = Ev.res
  /\ UNCHANGED <<k, cli, srv, rfc, macs, fl, pre, g>>

TNext == T_New \/ T_KeyNew \/ T_AlgName \/ T_AlgStr \/ T_CRequest \/ T_Net \/ T_SRequest \/ T_SError \/ T_SAnswer
         \/ T_RfcAnswer \/ T_RfcUnsigned \/ T_CAnswer \/ T_CDone
TSpec == TInit /\ [][TNext]_tvars

TraceOk == cli.unsigned <= 99

Accepted ==
  LET d == TLCGet("stats").diameter
  IN IF d = Len(Rec) + 1 THEN TRUE
     ELSE /\ PrintT("TRACE_REJECTED " \o ToJson([matched |-> d - 1, total |-> Len(Rec),
                      event |-> IF d <= Len(Rec) THEN Rec[d] ELSE [ev |-> "none"]]))
          /\ FALSE
=============================================================================
