CONSTANTS
  Dev = {}
  Mode = "pub"
  MaxLines = 0
  MaxSyms = 6
  MaxAdds = 0
  LineSet = "full"
  TagKeyLen = 0
  RsaFields <- RsaFields2
SPECIFICATION Spec
INVARIANT PubReaderIsGrammar
INVARIANT PubAsBuiltSubset
INVARIANT EmitPub
CHECK_DEADLOCK FALSE
