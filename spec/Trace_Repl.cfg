CONSTANTS
  Dev <- EnvDev
  XDev <- XEnvDev
SPECIFICATION TSpec
POSTCONDITION Accepted
CHECK_DEADLOCK FALSE
