----------------------------- MODULE MC_Denial -----------------------------
(* Exhaustive exploration of small zones: the transcribed generators equal *)
(* the declarative chains, the chains are closed and prove every absent    *)
(* (name, type); the bitmap builder equals the RFC 4034 4.1.2 encoding.    *)
(* Every explored zone is also a set of S->I cases.                        *)
EXTENDS Denial, TLC, Json

VARIABLES kind, zone, recs, step, nsecOut, n3Out, rk, adds,
          cf           \* the NSEC3 configuration under construction: [c, f0, script]
vars == <<kind, zone, recs, step, nsecOut, n3Out, rk, adds, cf>>

CONSTANTS MaxK,        \* owner names besides the apex
          Thorough,    \* BOOLEAN: larger name universe / type-set menu
          MaxAdds      \* length of RtypeBitmapBuilder::add sequences

la == <<97>>  lb == <<98>>  lA == <<65>>  lc == <<99>>  lB == <<66>>
ex == <<101, 120>>
Apex == <<ex>>
\* the zone suffix in other spellings: owner names, the apex records and the
\* apex name handed to the generators are spelled independently of each other
Up(l) == [i \in 1..Len(l) |-> IF l[i] \in 97..122 THEN l[i] - 32 ELSE l[i]]
UpName(n) == [i \in 1..Len(n) |-> Up(n[i])]
EX == Up(ex)  Ex == <<69, 120>>
\* a top-level label that contains the wire form of the apex (length octet
\* 2, "ex"): "f\002ex." sorts after the zone and is not part of it
Affix == <<102, 2, 101, 120>>

\* spelled owner names: case-only variants, wildcards, two levels (three in
\* the thorough tier), and names outside the zone before and after it
U1 == {<<la, ex>>, <<lA, ex>>, <<lb, ex>>, <<Star, ex>>}
U2 == {<<la, la, ex>>, <<lb, la, ex>>, <<Star, la, Ex>>, <<la, lA, ex>>,
       <<la, lb, ex>>, <<lb, lb, EX>>, <<Star, lb, ex>>, <<lA, lb, ex>>}
U3 == {<<la, la, la, ex>>, <<lb, la, la, ex>>}
Ooz == {<<la>>, <<<<102, 120>>>>, <<Affix>>}            \* "a.", "fx.", "f\002ex."
UNames == U1 \cup U2 \cup (IF Thorough THEN U3 \cup Ooz ELSE {<<Affix>>})

\* {NS, SOA, TXT}: the record collection also holds the apex of the delegated
\* child zone (its SOA and other data sit at the delegation point): still a
\* cut of the parent, only NS (and DS) are the parent's
Menu == {{T_A}, {T_NS}, {T_NS, T_DS}, {T_A, T_TXT, T_CAA}, {T_NS, T_SOA, T_TXT}}
        \cup (IF Thorough THEN {{T_NS, T_A}} ELSE {})
ApexSets == IF Thorough THEN {{T_SOA, T_NS, T_DNSKEY, T_A}} ELSE {{T_SOA, T_NS}}

Recs(n, ts) == {[n |-> n, t |-> t] : t \in ts}
\* limit shapes: 63-octet labels, owner names of wire length 253, 254, 255
L63(k) == [i \in 1..63 |-> (IF k = 2 THEN 65 ELSE 97) + ((i + k) % 5)]
LN(n) == [i \in 1..n |-> 48 + (i % 10)]
Deep(n) == [i \in 1..n |-> <<97 + (i % 3)>>]            \* n one-octet labels
\* an ENT that leads only to an insecure delegation, a secure one next to it
OptOutZone ==
  Recs(<<la, lb, ex>>, {T_NS}) \cup Recs(<<la, la, lb, ex>>, {T_A}) \cup Recs(<<lb, la, ex>>, {T_NS, T_DS})
    \cup Recs(<<lb, lb, la, ex>>, {T_A}) \cup Recs(<<Star, ex>>, {T_A, T_CAA})
\* hand-picked larger zones
ExtraZones == {
  \* glue and occluded data after the last authoritative name, a name after the zone
  Recs(<<Star, ex>>, {T_A}) \cup Recs(<<lb, ex>>, {T_NS}) \cup Recs(<<la, lb, ex>>, {T_A})
    \cup Recs(<<lb, lb, ex>>, {T_TXT}) \cup Recs(<<<<102, 120>>>>, {T_A}),
  \* an ENT shared by two branches below another ENT; case variants
  Recs(<<la, la, la, ex>>, {T_A}) \cup Recs(<<lb, lA, la, ex>>, {T_TXT}) \cup Recs(<<lb, ex>>, {T_A})
    \cup Recs(<<la, lb, ex>>, {T_A}) \cup Recs(<<Star, lB, ex>>, {T_TXT}),
  OptOutZone,
  \* a chain of two ENTs below a data-owning name that is not the apex
  \* (a.b.a.b.ex with data at b.ex: ENTs a.b.ex and b.a.b.ex), next to an
  \* ENT chain hanging off the apex
  Recs(<<lb, ex>>, {T_A}) \cup Recs(<<la, lb, la, lb, ex>>, {T_A}) \cup Recs(<<lb, lb, la, ex>>, {T_TXT}),
  \* names at the length limit: 56/57/58 + 3 x 63 octets of labels below ex
  \* (wire length 253, 254, 255), sharing a chain of three ENTs
  Recs(<<LN(56), L63(1), L63(2), L63(3), ex>>, {T_A}) \cup Recs(<<LN(57), L63(1), L63(2), L63(3), ex>>, {T_TXT})
    \cup Recs(<<LN(58), L63(1), L63(2), L63(3), ex>>, {T_A}) \cup Recs(<<lb, ex>>, {T_NS}),
  \* the delegated child's apex data (SOA, TXT) and names below it in the
  \* same collection as the parent
  Recs(<<lb, ex>>, {T_NS, T_SOA, T_TXT}) \cup Recs(<<la, lb, ex>>, {T_A}) \cup Recs(<<Star, lb, ex>>, {T_TXT})
    \cup Recs(<<la, la, lb, ex>>, {T_A}) \cup Recs(<<la, ex>>, {T_A}) \cup Recs(<<lc, ex>>, {T_NS, T_DS, T_SOA}),
  \* a delegation below a delegation, data at a cut, wildcard below an ENT
  Recs(<<la, ex>>, {T_NS, T_A}) \cup Recs(<<lb, la, ex>>, {T_NS, T_DS}) \cup Recs(<<la, lb, la, ex>>, {T_A})
    \cup Recs(<<Star, lb, lb, ex>>, {T_A}) \cup Recs(<<la>>, {T_A}) }
\* the maximum number of labels: 124 one-octet labels, one two-octet label
\* (wire length 255) / 125 one-octet labels (254) below ex -- 124 ENTs
DeepZones == { Recs(<<<<120, 121>>>> \o Deep(124) \o <<ex>>, {T_A}) \cup Recs(Deep(3) \o <<ex>>, {T_TXT}) }
IsDeep == \E r \in zone : Len(r.n) > 10          \* one hash order is enough there

\* Sibling order (RFC 4034 6.1: octets compared unsigned, upper-case US-ASCII
\* letters as lower case, nothing else folded).  One octet of every class the
\* fold and the octet order distinguish: below the digits, digits, between
\* digits and upper case, upper case, 0x5B-0x60 (between the cases), lower
\* case, above lower case, and >= 0x80 (0xC1 / 0xE1 are a case pair in
\* Latin-1 only); two-octet labels that differ behind a common first octet
\* or extend a shorter label.
EdgeOctets == {0, 45, 48, 64, 65, 90, 91, 95, 96, 97, 122, 123, 127, 128, 193, 225, 255}
EdgeLabels == {<<o>> : o \in EdgeOctets}
              \cup {<<97, 95>>, <<97, 66>>, <<97, 99>>, <<97, 0>>, <<97, 45>>, <<65, 96>>, <<97, 123>>}
OrdT(l) == IF l # LowerSeq(l) THEN {T_TXT} ELSE {T_A}     \* "A" and "a" are one owner
EdgeCore == {<<64>>, <<65>>, <<90>>, <<91>>, <<95>>, <<96>>, <<97>>, <<122>>, <<123>>, <<193>>, <<225>>}
lu == <<95>>  lz == <<122>>
OrderZones ==
  { UNION {Recs(<<l, ex>>, OrdT(l)) : l \in EdgeLabels},
    \* names are compared label by label from the right
    Recs(<<lu, la, ex>>, {T_A}) \cup Recs(<<la, lu, ex>>, {T_A}) \cup Recs(<<lz, lu, ex>>, {T_TXT})
      \cup Recs(<<lu, lz, ex>>, {T_A}) \cup Recs(<<lu, lu, EX>>, {T_A}) \cup Recs(<<lB, <<91>>, ex>>, {T_A})
      \cup Recs(<<<<96>>, lB, ex>>, {T_A}) \cup Recs(<<lu, ex>>, {T_NS}) }
  \cup { Recs(<<l, ex>>, OrdT(l)) \cup Recs(<<m, ex>>, OrdT(m)) : l, m \in EdgeCore }
OrderZonesOk == \A z \in OrderZones : \A r1, r2 \in z : (NameEq(r1.n, r2.n) /\ r1.t = r2.t) => r1 = r2

\* NSEC3 parameters: iteration counts around the RFC 5155 10.3 limits and the
\* 8/15/16-bit boundaries, salts of 0, 1, 2, 4, 8, 254 and 255 octets
SaltN(n, f) == [i \in 1..n |-> (i * f) % 256]
PM == << DefaultParams,
         [salt |-> <<0>>, iters |-> 3],
         [salt |-> <<255, 0, 171, 205, 1, 128, 127, 254>>, iters |-> 150],
         [salt |-> <<171, 205>>, iters |-> 2500],
         [salt |-> <<171, 205>>, iters |-> 2501],
         [salt |-> <<>>, iters |-> 5000],
         [salt |-> SaltN(255, 7), iters |-> 1],
         [salt |-> <<1, 2, 3, 4>>, iters |-> 65535],
         [salt |-> SaltN(254, 11), iters |-> 256],
         [salt |-> <<255>>, iters |-> 32768] >>
\* zones on which every parameter set is tried (an insecure delegation, ENTs,
\* a wildcard; the apex records spelled "Ex" in the second)
ParamZones ==
  { Recs(Apex, {T_SOA, T_NS}) \cup Recs(<<la, ex>>, {T_A}) \cup Recs(<<la, lb, Ex>>, {T_NS})
      \cup Recs(<<Star, lc, lb, ex>>, {T_TXT}),
    Recs(<<Ex>>, {T_SOA, T_NS}) \cup Recs(<<lb, ex>>, {T_NS, T_DS}) \cup Recs(<<la, lb, ex>>, {T_A}) }

\* The Flags octet as INPUT (Nsec3param::new(alg, flags, ..) handed to
\* GenerateNsec3Config::new): every value 0..255 on a zone with an insecure
\* delegation below an ENT of its own, a secure delegation, glue and a
\* wildcard; the edge values on a zone whose ENT leads to an insecure
\* delegation and to data (all values in the thorough tier).
FlagZone1 == Recs(Apex, {T_SOA, T_NS}) \cup OptOutZone
FlagZone2 == Recs(Apex, {T_SOA, T_NS}) \cup Recs(<<la, ex>>, {T_A}) \cup Recs(<<la, lb, Ex>>, {T_NS})
               \cup Recs(<<Star, lc, lb, ex>>, {T_TXT})
FlagZones == {FlagZone1, FlagZone2}
EdgeFlags == {0, 1, 2, 3, 64, 65, 127, 128, 129, 254, 255}
FlagVals == IF zone = FlagZone1 \/ Thorough THEN FlagOctets ELSE EdgeFlags
CfgSetters == {"opt_out", "no_exclude"} \cup (IF Thorough THEN {"no_dnskey"} ELSE {})
Cf0 == [c |-> CfgNew(0), f0 |-> 0, script |-> <<>>]

\* zones the generators must refuse (documented: the apex SOA cannot be
\* determined): no SOA at all, a SOA only at a delegated child's apex, two
\* SOA RRs at the apex
BadZones ==
  { Recs(Apex, {T_NS}) \cup Recs(<<la, ex>>, {T_A}),
    Recs(Apex, {T_NS}) \cup Recs(<<lb, ex>>, {T_NS, T_SOA, T_TXT}),
    Recs(Apex, {T_SOA, T_NS}) \cup {[n |-> Apex, t |-> T_SOA, v |-> 2]} \cup Recs(<<la, ex>>, {T_A}) }

Configs == [assume : BOOLEAN, exclude : BOOLEAN]

\* probe names: owners, ancestors, wildcards, some absent ones (lower case)
Closure(S) == UNION {{Suffix(n, k) : k \in 1..Len(n)} : n \in S}
Probes == Closure({Low(n) : n \in UNames \cup U3})
          \cup {<<lc, ex>>, <<la, lc, ex>>, <<lc, la, ex>>, <<Star, lc, ex>>, <<lc, lb, la, ex>>,
                <<la, la, lb, ex>>, <<lb, lb, la, ex>>, <<Star, lb, lb, ex>>, <<Star, la, la, ex>>}
\* a small family of hash orders over the names of a zone and their ancestors
ZNames == Closure({Low(r.n) : r \in zone})
RankOf(r) ==
  LET S == ZNames
      N == Cardinality(S)
  IN TLCEval([n \in S |->
        LET i == 1 + Cardinality({m \in S : CanonNameCmp(m, n) < 0})
        IN CASE r = 1 -> i                                         \* same as canonical
             [] r = 2 -> N + 1 - i                                 \* reversed
             [] r = 3 -> IF i % 2 = 0 THEN i \div 2 ELSE N + i     \* evens first, then odds
             [] r = 4 -> ((i + (N \div 2)) % N) + 1                \* rotated
             [] r = 5 -> IF 2 * i <= N THEN 2 * i ELSE 2 * (N + 1 - i) + 1   \* outside-in
             [] OTHER -> IF i % 3 = 0 THEN i ELSE IF i % 3 = 1 THEN 2 * N - i ELSE 3 * N + i])
NRanks == IF Thorough THEN 4 ELSE 2
ProbeTypes == {T_A, T_DS, T_CAA, 99}

--------------------------------------------------------------------------

ZoneOk(S, f) ==
  \A m, n \in S : (m # n /\ NameEq(m, n)) => f[m] \cap f[n] = {}
MkZone(av, S, f) == Recs(Apex, av) \cup UNION {Recs(n, f[n]) : n \in S}

Init ==
  /\ step = "zone" /\ nsecOut = <<>> /\ n3Out = <<>> /\ rk = 0 /\ adds = <<>> /\ cf = Cf0
  /\ \/ /\ kind = "zone"
        /\ \/ \E av \in ApexSets : \E S \in SUBSET UNames :
                 /\ Cardinality(S) <= MaxK
                 /\ \E f \in [S -> Menu] : ZoneOk(S, f) /\ zone = MkZone(av, S, f)
           \/ \E z \in ExtraZones \cup OrderZones \cup (IF Thorough THEN DeepZones ELSE {}) :
                 zone = Recs(Apex, {T_SOA, T_NS}) \cup z
           \/ zone \in ParamZones
     \/ kind = "badzone" /\ zone \in BadZones
     \/ kind = "bitmap" /\ zone = {}
  /\ recs = SortRecs(zone)

\* the apex name as the caller hands it to the generators
Arg == IF kind = "zone" /\ Cardinality(zone) % 5 \in {1, 3} THEN <<EX>> ELSE Apex
RkOf == IF rk >= 100 THEN 1 ELSE rk          \* rk > 100: parameter set PM[rk - 100]

RunNsec ==
  /\ kind = "zone" /\ step = "zone"
  /\ step' = "nsec"
  /\ nsecOut' = [a \in BOOLEAN |-> NsecPass(recs, Arg, a)]
  /\ UNCHANGED <<kind, zone, recs, n3Out, rk, adds, cf>>

RunNsec3 ==
  /\ kind = "zone" /\ step = "nsec"
  /\ \E r \in 1..(IF IsDeep THEN 1 ELSE NRanks) :
        /\ rk' = r
        /\ LET rf == RankOf(r)
           IN n3Out' = [c \in Configs |-> Nsec3Pass(recs, Arg, c.exclude, c.assume, rf)]
  /\ step' = "nsec3"
  /\ UNCHANGED <<kind, zone, recs, nsecOut, adds, cf>>

\* the chain under every parameter set of PM (the hash is uninterpreted: the
\* model chain is the same, the hashes and their order differ in the replay)
RunNsec3Params ==
  /\ kind = "zone" /\ step = "nsec" /\ zone \in ParamZones
  /\ \E i \in 1..Len(PM) : rk' = 100 + i
  /\ LET rf == RankOf(1)
     IN n3Out' = [c \in Configs |-> Nsec3Pass(recs, Arg, c.exclude, c.assume, rf)]
  /\ step' = "nsec3"
  /\ UNCHANGED <<kind, zone, recs, nsecOut, adds, cf>>

RunBad ==
  /\ kind = "badzone" /\ step = "zone"
  /\ step' = "bad"
  /\ nsecOut' = [a \in BOOLEAN |-> NsecPass(recs, Apex, a)]
  /\ LET rf == RankOf(1)
     IN n3Out' = [c \in Configs |-> Nsec3Pass(recs, Apex, c.exclude, c.assume, rf)]
  /\ UNCHANGED <<kind, zone, recs, rk, adds, cf>>

BmTypes == {1, 2, 6, 8, 43, 46, 47, 48, 51, 255, 256, 257, 511, 32768, 65280, 65535}
BmAddType ==
  /\ kind = "bitmap" /\ Len(adds) < MaxAdds
  /\ \E t \in BmTypes : adds' = Append(adds, t)
  /\ UNCHANGED <<kind, zone, recs, step, nsecOut, n3Out, rk, cf>>

\* The configuration as a machine: new(params) with any Flags octet, public
\* setter calls in any order, then the generator.
CfgStart ==
  /\ kind = "zone" /\ step = "nsec" /\ zone \in FlagZones
  /\ \E f \in FlagVals : cf' = [c |-> CfgNew(f), f0 |-> f, script |-> <<>>]
  /\ step' = "cfg"
  /\ UNCHANGED <<kind, zone, recs, nsecOut, n3Out, rk, adds>>
CfgCall ==
  /\ step = "cfg"
  /\ \E s \in CfgSetters \ {cf.script[i] : i \in 1..Len(cf.script)} :
        cf' = [cf EXCEPT !.c = CfgSet(@, s), !.script = Append(@, s)]
  /\ UNCHANGED <<kind, zone, recs, step, nsecOut, n3Out, rk, adds>>
RunNsec3Flags ==
  /\ step = "cfg"
  /\ step' = "nsec3f" /\ rk' = 1
  /\ n3Out' = Nsec3Pass(recs, Arg, GenExcludes(cf.c), cf.c.assume, RankOf(1))
  /\ UNCHANGED <<kind, zone, recs, nsecOut, adds, cf>>

Next == RunNsec \/ RunNsec3 \/ RunNsec3Params \/ RunBad \/ BmAddType
        \/ CfgStart \/ CfgCall \/ RunNsec3Flags
Spec == Init /\ [][Next]_vars

--------------------------------------------------------------------------
(* Properties *)

NsecPassEqualsDeclarative ==
  step = "nsec" =>
    LET v == View(zone, Apex)
    IN \A a \in BOOLEAN :
       /\ ~nsecOut[a].err
       /\ LowChain(nsecOut[a].out) = NsecChainV(v, Apex, a)
Nsec3PassEqualsDeclarative ==
  step = "nsec3" =>
    LET rf == RankOf(RkOf)
        v  == View(zone, Apex)
    IN \A c \in Configs :
       /\ ~n3Out[c].err
       /\ LowChain(n3Out[c].out) = Nsec3ChainV(v, Apex, c.exclude, c.assume, rf)
NsecClosed ==
  step = "nsec" => \A a \in BOOLEAN : Closed(LowChain(nsecOut[a].out), Apex)
Nsec3Closed ==
  step = "nsec3" => \A c \in Configs : Closed(LowChain(n3Out[c].out), Apex)
\* one record per authoritative owner, in canonical order
NsecCompleteOrdered ==
  step = "nsec" =>
    LET ch == LowChain(nsecOut[TRUE].out)
    IN /\ ViewIsAuth(zone, Apex)
       /\ {ch[i].owner : i \in 1..Len(ch)} = Auth(zone, Apex)
       /\ \A i \in 1..(Len(ch) - 1) : CanonNameCmp(ch[i].owner, ch[i + 1].owner) < 0
NsecCovers ==
  step = "nsec" =>
    LET v  == View(zone, Apex)
        ch == LowChain(nsecOut[FALSE].out)
    IN \A q \in Probes, t \in ProbeTypes :
          Deniable(v, Apex, q, t) => NsecProves(ch, v, Apex, q, t)
Nsec3Covers ==
  step = "nsec3" =>
    LET v == View(zone, Apex)
    IN \A c \in Configs :
         LET ch    == LowChain(n3Out[c].out)
             names == N3NamesV(v, Apex, c.exclude)
         IN \A q \in Probes, t \in ProbeTypes :
               Deniable(v, Apex, q, t) => N3Proves(ch, v, names, Apex, q, t)
\* any Flags octet, any setter script: the pass is the declarative chain of
\* the configuration (Opt-Out by the BIT), closed, proves every absent probe,
\* and what the RRs advertise agrees with what the chain leaves out
Nsec3FlagsOk ==
  step = "nsec3f" =>
    LET v    == View(zone, Apex)
        c    == cf.c
        ch   == LowChain(n3Out.out)
        decl == DeclExcludes(c)
    IN /\ c = CfgRun(cf.f0, cf.script) /\ c.flags \in FlagOctets
       /\ ~n3Out.err
       /\ ch = Nsec3ChainV(v, Apex, decl, c.assume, RankOf(1))
       /\ Closed(ch, Apex)
       /\ OptOutConsistent(c, v.insecure, Owners(ch))
       /\ cf.f0 \in EdgeFlags =>
            \A q \in Probes, t \in ProbeTypes :
               Deniable(v, Apex, q, t) => N3Proves(ch, v, N3NamesV(v, Apex, decl), Apex, q, t)
FlagLawsOk == (kind = "bitmap" /\ adds = <<>>) => FlagLaws
\* the hash orders really are injective
RanksOk == step \in {"nsec3", "nsec3f"} =>
  LET rf == RankOf(RkOf) IN \A m, n \in DOMAIN rf : m # n => rf[m] # rf[n]

BadZonesRefused ==
  step = "bad" => (\A a \in BOOLEAN : nsecOut[a].err) /\ (\A c \in Configs : n3Out[c].err)
ParamsOk == (kind = "bitmap" /\ adds = <<>>) =>
  /\ \A i \in 1..Len(PM) : IsParams(PM[i])
  /\ \A k \in 0..3 : RepLaw(<<la, ex>>, <<171, 0>>, k)
  /\ OrderZonesOk

BitmapBuilderIsSetEncoding ==
  kind = "bitmap" => BmBuild(adds) = BitmapOf({adds[i] : i \in 1..Len(adds)})

--------------------------------------------------------------------------
(* S->I cases *)
RECURSIVE SetToSeq(_)
SetToSeq(S) == IF S = {} THEN <<>>
               ELSE LET m == CHOOSE x \in S : \A y \in S : x <= y IN <<m>> \o SetToSeq(S \ {m})
ChainJ(c) == [i \in 1..Len(c) |-> [owner |-> c[i].owner, next |-> c[i].next, types |-> SetToSeq(c[i].types)]]
ZoneJ == [i \in 1..Len(recs) |-> recs[Len(recs) + 1 - i]]     \* handed over unsorted (reversed)
SoaOf == IF Cardinality(zone) % 2 = 0 THEN [ttl |-> 3600, min |-> 300] ELSE [ttl |-> 100, min |-> 7200]
SaltOf == IF Cardinality(zone) % 4 < 2 THEN <<>> ELSE <<171, 205>>
ItersOf == IF Cardinality(zone) % 3 = 0 THEN 2 ELSE IF Cardinality(zone) % 3 = 1 THEN 0 ELSE 1

\* Aliases the result must not depend on.  ctor: the configuration starts from
\* new() or from Default::default().  allroutes: the executor hands the sorted
\* records to the generator through every public route (SortedRecords built by
\* From<Vec> / FromIterator and owner_rrs(), RecordsIter::new over the owned
\* slice, RecordsIter::new_from_refs over references) and reads the generated
\* records directly and after every representation conversion (composed into
\* a message and parsed, OctetsFrom to other octets types and back, rebuilt
\* through the setters, bitmaps / salts / hashes through their serde forms).
CtorOf == IF Cardinality(zone) % 2 = 0 THEN "new" ELSE "default"
EmitNsec ==
  (step = "nsec") =>
    LET v == View(zone, Apex) IN
    \A a \in BOOLEAN : PrintT("CASE " \o ToJson(
      [in  |-> [kind |-> "nsec", apex |-> Arg, recs |-> ZoneJ, soa |-> SoaOf, assume |-> a,
                ctor |-> CtorOf, allroutes |-> TRUE],
       exp |-> [chain |-> ChainJ(NsecChainV(v, Apex, a)),
                ttl |-> Min(SoaOf.ttl, SoaOf.min), class |-> 1]]))
\* The configuration is built through the public setter methods of
\* GenerateNsec3Config (defaults: DNSKEY assumed, no opt-out, exclusion on once
\* opt-out is on); the result must not depend on the order of the calls.
\* The NSEC3PARAM TTL mode (default: the SOA TTL) is set on the configurations
\* that assume DNSKEYs, which mode depends on the zone.
TtlModeOf(c) ==
  IF ~c.assume \/ (kind = "zone" /\ Cardinality(zone) % 4 = 3) THEN DefaultTtlMode
  ELSE CASE Cardinality(zone) % 3 = 0 -> [m |-> "soa", v |-> 0]
         [] Cardinality(zone) % 3 = 1 -> [m |-> "soa_min", v |-> 0]
         [] OTHER -> [m |-> "fixed", v |-> 7]
Setters(c, flagonly) ==
  (IF ~c.assume THEN {"no_dnskey"}
   ELSE IF kind = "zone" /\ Cardinality(zone) % 4 = 3 THEN {} ELSE {"ttl_" \o TtlModeOf(c).m})
  \cup (IF c.exclude \/ flagonly THEN {"opt_out"} ELSE {})
  \cup (IF flagonly THEN {"no_exclude"} ELSE {})
Perms(S) == {p \in [1..Cardinality(S) -> S] : \A i, j \in 1..Cardinality(S) : i # j => p[i] # p[j]}
SetToSeq2(S) == CHOOSE p \in Perms(S) : TRUE
\* every order of the setter calls on every other zone, one order on the rest
Orders(S) == IF Cardinality(zone) % 2 = 0 THEN Perms(S) ELSE {SetToSeq2(S)}
\* the parameters of an emitted case, and the term of a name's hash: unrolled
\* for up to 2 iterations, Rep(k, ..) beyond ("rep" is always handed over)
ParamsOf == IF rk >= 100 THEN PM[rk - 100] ELSE [salt |-> SaltOf, iters |-> ItersOf]
TermOf(n, P) == IF P.iters <= 2 THEN Nsec3Term(n, P.salt, P.iters) ELSE Nsec3TermR(n, P.salt, P.iters)
\* (the second form goes along on a third of the zones and on every PM case)
NamesJ(names, P) ==
  IF rk >= 100 \/ Cardinality(zone) % 3 = 0
  THEN [i \in 1..Len(names) |->
          [n |-> names[i], term |-> TermOf(names[i], P), rep |-> Nsec3TermR(names[i], P.salt, P.iters)]]
  ELSE [i \in 1..Len(names) |-> [n |-> names[i], term |-> TermOf(names[i], P)]]
\* g: the configuration (CfgRun(f0, order)): the Flags octet f0 goes into
\* Nsec3param::new, the setters are called in this order.  Expected: the
\* declarative chain with Opt-Out decided by the BIT of g.flags, every NSEC3
\* RR with Flags = g.flags verbatim and opt_out() = that bit; the NSEC3PARAM
\* RR's Flags one of ParamFlagsAllowed and its opt_out_flag() the bit of
\* whatever it carries.
ParamFlagsJ(g) == LET fs == SetToSeq(ParamFlagsAllowed(g))
                 IN [i \in 1..Len(fs) |-> [f |-> fs[i], opt |-> OptOutBit(fs[i])]]
N3CaseF(v, ap, arg, zj, soa, g, f0, order, P, ctor, allroutes, mode) ==
  LET excl == DeclExcludes(g)
      owners == N3OwnersV(v, excl)
      names == SortNames(N3NamesV(v, ap, excl))
  IN [in  |-> [kind |-> "nsec3", apex |-> arg, recs |-> zj, soa |-> soa, assume |-> g.assume,
               setters |-> order, ttlv |-> mode.v, ctor |-> ctor, allroutes |-> allroutes,
               optout |-> "script", flags0 |-> f0, paramflags |-> ParamFlagsJ(g),
               salt |-> P.salt, iters |-> P.iters, names |-> NamesJ(names, P)],
      exp |-> [entries |-> [i \in 1..Len(names) |->
                              [n |-> names[i],
                               types |-> SetToSeq(N3TypesV(v, ap, owners, g.assume, names[i]))]],
               linked |-> TRUE,
               flags |-> EmittedFlags(g), optbit |-> OptOutBit(EmittedFlags(g)),
               paramflags_ok |-> TRUE,
               ttl |-> Min(soa.ttl, soa.min), paramttl |-> ParamTtl(mode, soa)]]
N3Case(v, ap, arg, zj, soa, c, flagonly, order, P, ctor, allroutes, mode) ==
  N3CaseF(v, ap, arg, zj, soa, CfgRun(0, order), 0, order, P, ctor, allroutes, mode)
EmitNsec3 ==
  (step = "nsec3" /\ rk = 1) =>
    LET v == View(zone, Apex)
        P == ParamsOf
        ctor == IF P = DefaultParams THEN CtorOf ELSE "new"
    IN
    \A c \in Configs : \A flagonly \in {FALSE} \cup (IF c.exclude THEN {} ELSE {TRUE}) :
     \A order \in Orders(Setters(c, flagonly)) :
      PrintT("CASE " \o ToJson(N3Case(v, Apex, Arg, ZoneJ, SoaOf, c, flagonly, order, P, ctor, TRUE, TtlModeOf(c))))
\* the configuration machine: one case per reached configuration
EmitFlags ==
  step = "nsec3f" =>
    PrintT("CASE " \o ToJson(N3CaseF(View(zone, Apex), Apex, Arg, ZoneJ, SoaOf, cf.c, cf.f0, cf.script,
                                      [salt |-> SaltOf, iters |-> ItersOf], "new",
                                      cf.f0 \in EdgeFlags, DefaultTtlMode)))
\* the accessor pair and the setter on every Flags octet, through every route
\* to an Nsec3param / Nsec3 (constructor, wire, octets conversion, zone file
\* text, serde, with_opt_out() on a configuration)
EmitFlagAccessors ==
  (kind = "bitmap" /\ adds = <<>>) =>
    \A f \in FlagOctets : PrintT("CASE " \o ToJson(
      [in  |-> [kind |-> "n3flags", flags |-> f],
       exp |-> [flags |-> f, param_opt |-> OptOutBit(f), nsec3_opt |-> OptOutBit(f),
                set |-> SetOptOutFlag(f), set_opt |-> OptOutBit(SetOptOutFlag(f)),
                cfg |-> CfgRun(f, <<"opt_out">>).flags]]))
\* every parameter set: the chain, and every public route to a name's hash
\* (nsec3_hash, nsec3_default_hash where the parameters are the default ones,
\* mk_hashed_nsec3_owner_name; the salt built by every Nsec3Salt constructor)
EmitParams ==
  (step = "nsec3" /\ rk >= 100) =>
    LET v == View(zone, Apex)
        P == ParamsOf
        ctor == IF P = DefaultParams THEN "default" ELSE "new"
        names == SortNames(N3NamesV(v, Apex, FALSE))
    IN /\ \A c \in Configs :
            PrintT("CASE " \o ToJson(N3Case(v, Apex, Arg, ZoneJ, SoaOf, c, FALSE, SetToSeq2(Setters(c, FALSE)),
                                            P, ctor, P.iters <= 300, TtlModeOf(c))))
       /\ \A i \in 1..Len(names) :
            PrintT("CASE " \o ToJson(
              [in  |-> [kind |-> "n3hash", n |-> IF i % 2 = 0 THEN UpName(names[i]) ELSE names[i], apex |-> Arg,
                        salt |-> P.salt, iters |-> P.iters,
                        term |-> TermOf(names[i], P), rep |-> Nsec3TermR(names[i], P.salt, P.iters)],
               exp |-> [hash |-> TRUE, owner |-> TRUE, salts |-> TRUE, default |-> P = DefaultParams]]))
EmitBad ==
  step = "bad" =>
    /\ \A a \in BOOLEAN : PrintT("CASE " \o ToJson(
         [in  |-> [kind |-> "nsec", apex |-> Apex, recs |-> ZoneJ, soa |-> SoaOf, assume |-> a,
                   ctor |-> "new", allroutes |-> TRUE],
          exp |-> [err |-> TRUE]]))
    /\ \A c \in Configs : PrintT("CASE " \o ToJson(
         [in  |-> [kind |-> "nsec3", apex |-> Apex, recs |-> ZoneJ, soa |-> SoaOf, assume |-> c.assume,
                   setters |-> SetToSeq2(Setters(c, FALSE)), ttlv |-> 7, ctor |-> "new", allroutes |-> TRUE,
                   optout |-> IF c.exclude THEN "exclude" ELSE "none", salt |-> <<>>, iters |-> 0, names |-> <<>>],
          exp |-> [err |-> TRUE]]))
\* Apex names at the length limit: the hashed owner name is a 32-character
\* label (33 octets) in front of the apex, so an apex of 222 wire octets is the
\* longest that can carry an NSEC3 chain (255-octet owner names)
ApexOfLen(w) == <<LN(w - 194), L63(1), L63(2), L63(3)>>         \* 3 * 64 + (w - 193) + 1 = w
LongApexes == {ApexOfLen(220), ApexOfLen(221), ApexOfLen(222)}
LongZone(ap) == Recs(ap, {T_SOA, T_NS}) \cup Recs(<<la>> \o ap, {T_A}) \cup Recs(<<lb, lb>> \o ap, {T_NS})
AtStart == kind = "bitmap" /\ adds = <<>>
LongApexLaws == AtStart =>
  \A ap \in LongApexes :
     LET z == LongZone(ap)  s == SortRecs(z)  v == View(z, ap)
         S == Closure({Low(r.n) : r \in z})
         rf == TLCEval([n \in S |-> 1 + Cardinality({m \in S : CanonNameCmp(m, n) < 0})])
     IN /\ WireLenAbs(ap) \in {220, 221, 222}
        /\ LowChain(NsecPass(s, ap, TRUE).out) = NsecChainV(v, ap, TRUE)
        /\ \A c \in Configs :
              LowChain(Nsec3Pass(s, ap, c.exclude, c.assume, rf).out) = Nsec3ChainV(v, ap, c.exclude, c.assume, rf)
EmitLongApex == AtStart =>
  \A ap \in LongApexes :
     LET z == LongZone(ap)  s == SortRecs(z)  v == View(z, ap)
         zj == [i \in 1..Len(s) |-> s[Len(s) + 1 - i]]
         soa == [ttl |-> 3600, min |-> 300]
     IN /\ PrintT("CASE " \o ToJson(
              [in  |-> [kind |-> "nsec", apex |-> ap, recs |-> zj, soa |-> soa, assume |-> TRUE,
                        ctor |-> "new", allroutes |-> TRUE],
               exp |-> [chain |-> ChainJ(NsecChainV(v, ap, TRUE)), ttl |-> 300, class |-> 1]]))
        /\ \A c \in Configs :
             PrintT("CASE " \o ToJson(N3Case(v, ap, ap, zj, soa, c, FALSE, SetToSeq2(Setters(c, FALSE)),
                                             [salt |-> <<171>>, iters |-> 1], "new", TRUE, TtlModeOf(c))))
EmitBitmap ==
  kind = "bitmap" => PrintT("CASE " \o ToJson(
      [in  |-> [kind |-> "bitmap", adds |-> adds],
       exp |-> [octets |-> BitmapOf({adds[i] : i \in 1..Len(adds)}),
                types |-> SetToSeq({adds[i] : i \in 1..Len(adds)})]]))
=============================================================================
