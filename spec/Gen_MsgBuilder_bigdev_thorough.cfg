CONSTANTS
  Dev = {"D_ptr_limit_c000"}
  Scenario = "big"
  MaxOps = 5
  CompSet = {"none", "static", "tree", "hash"}
  TgtSet = {"vec", "stream"}
SPECIFICATION Spec
INVARIANT Emit
CHECK_DEADLOCK FALSE
