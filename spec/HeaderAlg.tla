----------------------------- MODULE HeaderAlg -----------------------------
(* X06 -- the algebra of the DNS message header, the EDNS (OPT) header and  *)
(* the 12-bit extended RCODE, and the response scaffolding built on them    *)
(* (src/base/header.rs, iana/rcode.rs, iana/opcode.rs, opt/mod.rs,          *)
(* message_builder.rs: start_answer / start_error / request_axfr /          *)
(* AdditionalBuilder::opt + OptBuilder, message.rs: opt_rcode / no_error /   *)
(* copy_records, dig_printer.rs).                                            *)
(*                                                                          *)
(* Properties (stated by the builder of this extension; each quantified      *)
(* over all header values, all arguments and all call sequences):           *)
(*                                                                          *)
(* P1 FIELD ALGEBRA.  The twelve header octets are a product of             *)
(*    independent fields (RFC 1035 4.1.1, RFC 4035 3.1.6 / 3.2.2 for AD and *)
(*    CD): every setter changes exactly the bits of its own field and no    *)
(*    other bit of the twelve octets, every getter reads back what was set, *)
(*    setting twice is setting once, setters of different fields commute.    *)
(*    Flags text: Display lists the set flags in the order QR AA TC RD RA AD *)
(*    CD and FromStr(Display(F)) = F for all 128 values.                     *)
(* P2 COUNTS NEVER WRAP.  inc_* on 65535 reports an error and dec_* on 0     *)
(*    panics (as documented) and both leave all twelve octets unchanged;     *)
(*    otherwise the count changes by exactly one as an integer.  The UPDATE  *)
(*    names (RFC 2136 2.2: ZOCOUNT PRCOUNT UPCOUNT ADCOUNT) address the same *)
(*    four fields in the same order.                                         *)
(* P3 EXTENDED RCODE (RFC 6891 6.1.3).  The 12-bit code r is split into      *)
(*    r mod 16 (header RCODE) and r div 16 (OPT TTL octet 0); from_parts and *)
(*    to_parts are mutually inverse for all 4096 values; a code is accepted  *)
(*    by the checked conversions iff it fits (4 / 12 bits); a message's      *)
(*    opt_rcode is the join of header RCODE and the first OPT record's       *)
(*    EXTENDED-RCODE, and without OPT the upper eight bits are 0;            *)
(*    OptBuilder::set_rcode writes BOTH halves; the OPT header fields (UDP   *)
(*    payload size, EXTENDED-RCODE, VERSION, DO, the 15 Z bits, the fixed    *)
(*    NAME and TYPE octets) are independent of each other; a failed          *)
(*    AdditionalBuilder::opt leaves the message as it was.                   *)
(* P4 RESPONSE SCAFFOLDING.  start_answer / start_error set ID, OPCODE and   *)
(*    RD from the request, QR = 1, RCODE as given, and change no other       *)
(*    header bit of the builder; the questions of the request are copied in  *)
(*    order (start_error: the longest prefix that fits); the three record    *)
(*    counts stay 0.  request_axfr pushes one question and leaves all header *)
(*    bits other than the ID alone.  copy_records pushes exactly the records *)
(*    its closure keeps, in order, section by section, sets the three counts *)
(*    to the numbers kept and copies no header bit of the source.            *)
(* P5 DIG OUTPUT is a function of the header and the sections: opcode,       *)
(*    rcode, id, flag tokens and the four counts printed are those of the    *)
(*    header; each section prints as many lines as it has (non-OPT) records. *)
(*                                                                          *)
(* The layout is written down here from the RFC diagrams in two independent  *)
(* ways (bit numbers in the 16-bit word, RFC style, MSB = bit 0; and         *)
(* (octet, bit) positions) and TLC checks that they agree.                    *)
(*                                                                          *)
(* Named deviations (DESIGN 2.6):                                            *)
(*  D_set_opcode_spill      Header::set_opcode does not mask its argument:   *)
(*                          bit 4 of the opcode value lands in QR.            *)
(*  D_opt_fail_keeps_rcode  a failed AdditionalBuilder::opt is rolled back   *)
(*                          in the buffer but the header RCODE written by     *)
(*                          OptBuilder::set_rcode stays.                      *)
(*  D_optrcode_checked_mask OptRcode::checked_from_int tests the wrong mask  *)
(*                          (value & 0x0FFF instead of value & 0xF000).       *)
(*  D_dig_rcode_low_bits    display_dig_style prints the 4-bit header RCODE   *)
(*                          even when an OPT record extends it.               *)
EXTENDS Octets, TLC

CONSTANT Dev

DevNames == {"D_set_opcode_spill", "D_opt_fail_keeps_rcode",
             "D_optrcode_checked_mask", "D_dig_rcode_low_bits"}

B(b) == IF b THEN 1 ELSE 0
Bit(v, j) == (v \div (2 ^ j)) % 2          \* bit j of v, j = 0 is the least significant

---------------------------------------------------------------------------
(* RFC 1035 4.1.1: the second 16-bit word of the header.                    *)
(*                                 1  1  1  1  1  1                          *)
(*   0  1  2  3  4  5  6  7  8  9  0  1  2  3  4  5                          *)
(* |QR|   Opcode  |AA|TC|RD|RA| Z|AD|CD|   RCODE   |                         *)
(* (bit 0 is the most significant bit; AD, CD: RFC 2535 6.1 / RFC 4035)      *)

Fld(pos, w) == [pos |-> pos, w |-> w]
Layout == [qr |-> Fld(0, 1), opcode |-> Fld(1, 4), aa |-> Fld(5, 1), tc |-> Fld(6, 1),
           rd |-> Fld(7, 1), ra |-> Fld(8, 1), z |-> Fld(9, 1), ad |-> Fld(10, 1),
           cd |-> Fld(11, 1), rcode |-> Fld(12, 4)]
FieldNames == DOMAIN Layout
Shift(f) == 2 ^ (16 - Layout[f].pos - Layout[f].w)
Range(f) == 2 ^ Layout[f].w
GetW(w, f) == (w \div Shift(f)) % Range(f)
PutW(w, f, v) == w - GetW(w, f) * Shift(f) + (v % Range(f)) * Shift(f)

\* the same layout as (octet, bit) positions of the twelve header octets
\* (octets 1-based, bit 7 = most significant), written from the diagram again
Bits(oct, hi, lo) == {<<oct, j>> : j \in lo..hi}
Where == [qr |-> Bits(3, 7, 7), opcode |-> Bits(3, 6, 3), aa |-> Bits(3, 2, 2),
          tc |-> Bits(3, 1, 1), rd |-> Bits(3, 0, 0), ra |-> Bits(4, 7, 7),
          z |-> Bits(4, 6, 6), ad |-> Bits(4, 5, 5), cd |-> Bits(4, 4, 4),
          rcode |-> Bits(4, 3, 0),
          id |-> Bits(1, 7, 0) \cup Bits(2, 7, 0),
          qd |-> Bits(5, 7, 0) \cup Bits(6, 7, 0), an |-> Bits(7, 7, 0) \cup Bits(8, 7, 0),
          ns |-> Bits(9, 7, 0) \cup Bits(10, 7, 0), ar |-> Bits(11, 7, 0) \cup Bits(12, 7, 0)]
AllBits == {<<i, j>> : i \in 1..12, j \in 0..7}
CountName == <<"qd", "an", "ns", "ar">>            \* section 0..3 -> field
\* RFC 2136 2.2: the header of an UPDATE message names the same four 16-bit
\* fields ZOCOUNT PRCOUNT UPCOUNT ADCOUNT, in this order
UpdateName == <<"zo", "pr", "up", "adc">>

HdrZero == [i \in 1..12 |-> 0]
HId(h) == h[1] * 256 + h[2]
HWord(h) == h[3] * 256 + h[4]
HCount(h, sec) == h[5 + 2 * sec] * 256 + h[6 + 2 * sec]
PutId(h, v) == [h EXCEPT ![1] = (v \div 256) % 256, ![2] = v % 256]
PutWord(h, w) == [h EXCEPT ![3] = w \div 256, ![4] = w % 256]
PutCount(h, sec, v) == [h EXCEPT ![5 + 2 * sec] = (v \div 256) % 256, ![6 + 2 * sec] = v % 256]
HGet(h, f) == GetW(HWord(h), f)
HPut(h, f, v) == PutWord(h, PutW(HWord(h), f, v))

\* octets a and b agree on every bit outside `allowed`
SameOutside(a, b, allowed) ==
  \A p \in AllBits \ allowed : Bit(a[p[1]], p[2]) = Bit(b[p[1]], p[2])

\* the Flags structure: seven flags (no Z), text order of Display
FlagOrder == <<"qr", "aa", "tc", "rd", "ra", "ad", "cd">>
FlagToken == [qr |-> "QR", aa |-> "AA", tc |-> "TC", rd |-> "RD", ra |-> "RA", ad |-> "AD", cd |-> "CD"]
FlagsMask(h) ==      \* qr = 64 ... cd = 1
  HGet(h, "qr") * 64 + HGet(h, "aa") * 32 + HGet(h, "tc") * 16 + HGet(h, "rd") * 8
  + HGet(h, "ra") * 4 + HGet(h, "ad") * 2 + HGet(h, "cd")
RECURSIVE PutFlagsFrom(_, _, _)
PutFlagsFrom(h, m, i) ==
  IF i > 7 THEN h ELSE PutFlagsFrom(HPut(h, FlagOrder[i], Bit(m, 7 - i)), m, i + 1)
PutFlags(h, m) == PutFlagsFrom(h, m, 1)
RECURSIVE FlagTokensFrom(_, _)
FlagTokensFrom(m, i) ==
  IF i > 7 THEN <<>>
  ELSE (IF Bit(m, 7 - i) = 1 THEN <<FlagToken[FlagOrder[i]]>> ELSE <<>>) \o FlagTokensFrom(m, i + 1)
FlagTokens(m) == FlagTokensFrom(m, 1)
RECURSIVE JoinSp(_)
JoinSp(ts) == IF ts = <<>> THEN "" ELSE IF Len(ts) = 1 THEN ts[1] ELSE ts[1] \o " " \o JoinSp(Tail(ts))
FlagsText(m) == JoinSp(FlagTokens(m))

---------------------------------------------------------------------------
(* RFC 6891 6.1.2 / 6.1.3: the fixed part of the OPT pseudo-record, nine     *)
(* octets up to (not including) RDLEN:                                        *)
(*   1      NAME  = 0 (root)                                                  *)
(*   2..3   TYPE  = 41                                                        *)
(*   4..5   CLASS = requestor's UDP payload size                              *)
(*   6      TTL octet 0 = EXTENDED-RCODE (upper 8 bits of the 12-bit code)    *)
(*   7      TTL octet 1 = VERSION                                             *)
(*   8..9   TTL octets 2-3 = DO (most significant bit) and 15 Z bits          *)

OptDefault == <<0, 0, 41, 0, 0, 0, 0, 0, 0>>
OUdp(o) == o[4] * 256 + o[5]
OExt(o) == o[6]
OVer(o) == o[7]
ODo(o) == o[8] \div 128
OZ(o) == (o[8] % 128) * 256 + o[9]
OPutUdp(o, v) == [o EXCEPT ![4] = (v \div 256) % 256, ![5] = v % 256]
OPutExt(o, e) == [o EXCEPT ![6] = e % 256]
OPutVer(o, v) == [o EXCEPT ![7] = v % 256]
OPutDo(o, b) == [o EXCEPT ![8] = (o[8] % 128) + 128 * b]
OWhere == [udp |-> Bits(4, 7, 0) \cup Bits(5, 7, 0), ext |-> Bits(6, 7, 0),
           ver |-> Bits(7, 7, 0), do |-> Bits(8, 7, 7)]
OAllBits == {<<i, j>> : i \in 1..9, j \in 0..7}
OSameOutside(a, b, allowed) ==
  \A p \in OAllBits \ allowed : Bit(a[p[1]], p[2]) = Bit(b[p[1]], p[2])

\* the 12-bit extended RCODE
RcLow(r) == r % 16
RcExt(r) == (r \div 16) % 256
RcJoin(low, ext) == ext * 16 + low
RcIsExt(r) == r >= 16
\* Message::opt_rcode: header RCODE joined with the first OPT record, if any
MsgRcode(h, opts) ==
  IF opts = <<>> THEN HGet(h, "rcode") ELSE RcJoin(HGet(h, "rcode"), OExt(opts[1]))

\* checked conversions: a value is an RCODE iff it fits into 4 bits, an
\* extended RCODE iff it fits into 12 bits
RcodeChecked(v) == v < 16
OptRcodeChecked(v, D) ==
  IF "D_optrcode_checked_mask" \in D THEN v % 4096 = 0 ELSE v < 4096

\* IANA "DNS RCODEs" registry, the values that can occur in a header or an
\* OPT record (17..22 are TSIG/TKEY error values and have no OPT meaning)
RcodeText(r) ==
  CASE r = 0 -> "NOERROR" [] r = 1 -> "FORMERR" [] r = 2 -> "SERVFAIL" [] r = 3 -> "NXDOMAIN"
    [] r = 4 -> "NOTIMP" [] r = 5 -> "REFUSED" [] r = 6 -> "YXDOMAIN" [] r = 7 -> "YXRRSET"
    [] r = 8 -> "NXRRSET" [] r = 9 -> "NOTAUTH" [] r = 10 -> "NOTZONE"
    [] r = 16 -> "BADVERS" [] r = 23 -> "BADCOOKIE"
    [] OTHER -> ToString(r)
\* IANA "DNS OpCodes" registry
OpcodeText(o) ==
  CASE o = 0 -> "QUERY" [] o = 1 -> "IQUERY" [] o = 2 -> "STATUS" [] o = 4 -> "NOTIFY"
    [] o = 5 -> "UPDATE" [] o = 6 -> "DSO" [] OTHER -> ToString(o)

---------------------------------------------------------------------------
(* The machine.  A state is [h, o, g]:                                       *)
(*   h  the twelve header octets                                              *)
(*   o  the OPT headers (nine octets each): carrier "plain": exactly one, a   *)
(*      stand-alone OptHeader; carrier "builder": those of the OPT records    *)
(*      pushed to the additional section so far, in order                      *)
(*   g  -1 plain carrier (HeaderSection / header octets of a message slice);  *)
(*      0..4 the stage of a MessageBuilder: builder, question, answer,        *)
(*      authority, additional                                                  *)
(* An operation is [k, a]: name and integer arguments.  Step yields the next  *)
(* state and the call's result r: 0 unit/Ok, 1 Err, 2 panic.                  *)

BitSetter == [set_qr |-> "qr", set_aa |-> "aa", set_tc |-> "tc", set_rd |-> "rd",
              set_ra |-> "ra", set_z |-> "z", set_ad |-> "ad", set_cd |-> "cd"]
HeaderOps == DOMAIN BitSetter \cup {"set_id", "set_opcode", "set_rcode", "set_flags"}
CountOps == {"set_count", "set_ucount", "inc", "dec", "set_counts"}
OptHeaderOps == {"oh_udp", "oh_rcode", "oh_version", "oh_do"}
BuilderOps == {"goto", "push", "opt", "start_answer", "start_error", "request_axfr"}

\* the field(s) an operation may write, as (octet, bit) positions of h
Touches(op) ==
  LET k == op.k IN
  IF k \in DOMAIN BitSetter THEN Where[BitSetter[k]]
  ELSE IF k = "set_id" THEN Where.id
  ELSE IF k = "set_opcode" THEN Where.opcode
  ELSE IF k = "set_rcode" THEN Where.rcode
  ELSE IF k = "set_flags" THEN UNION {Where[FlagOrder[i]] : i \in 1..7}
  ELSE IF k \in {"set_count", "set_ucount", "inc", "dec"} THEN Where[CountName[op.a[1] + 1]]
  ELSE IF k = "set_counts" THEN Where.qd \cup Where.an \cup Where.ns \cup Where.ar
  ELSE {}

Res(s, r) == [s |-> s, r |-> r, c |-> <<>>]
Fresh == [h |-> HdrZero, o |-> <<>>, g |-> 0]

\* the sub-operations of an OptBuilder closure: a = <<code, value, ...>>,
\* code 1 set_udp_payload_size, 2 set_rcode (12 bit), 3 set_version, 4 set_dnssec_ok
RECURSIVE OptSubs(_, _, _, _)
OptSubs(h, o, a, i) ==
  IF i + 1 > Len(a) THEN [h |-> h, o |-> o]
  ELSE LET c == a[i]  v == a[i + 1] IN
    IF c = 1 THEN OptSubs(h, OPutUdp(o, v), a, i + 2)
    ELSE IF c = 2 THEN OptSubs(HPut(h, "rcode", RcLow(v)), OPutExt(o, RcExt(v)), a, i + 2)
    ELSE IF c = 3 THEN OptSubs(h, OPutVer(o, v), a, i + 2)
    ELSE OptSubs(h, OPutDo(o, v), a, i + 2)

\* rewinding from stage g back to stage t: the counts of the sections that
\* are left are reset, the additional section's OPT records are gone
RECURSIVE Rewind(_, _, _)
Rewind(h, g, t) == IF g <= t THEN h ELSE Rewind(PutCount(h, g - 1, 0), g - 1, t)

ScaffoldHeader(h, reqword, reqid, rc) ==
  HPut(HPut(HPut(HPut(PutId(h, reqid), "qr", 1), "opcode", GetW(reqword, "opcode")),
            "rd", GetW(reqword, "rd")), "rcode", rc)

Step(s, op, D) ==
  LET k == op.k
      a == op.a
      ok(h) == Res([s EXCEPT !.h = h], 0)
      okO(o1) == Res([s EXCEPT !.o = <<o1>>], 0)
  IN
  IF k \in DOMAIN BitSetter THEN ok(HPut(s.h, BitSetter[k], a[1]))
  ELSE IF k = "set_id" THEN ok(PutId(s.h, a[1]))
  ELSE IF k = "set_opcode" THEN
    \* the opcode is a four-bit field; Opcode wraps any u8
    LET h1 == HPut(s.h, "opcode", a[1] % 16)
    IN IF "D_set_opcode_spill" \in D /\ Bit(a[1], 4) = 1 THEN ok(HPut(h1, "qr", 1)) ELSE ok(h1)
  ELSE IF k = "set_rcode" THEN ok(HPut(s.h, "rcode", a[1]))
  ELSE IF k = "set_flags" THEN ok(PutFlags(s.h, a[1]))
  ELSE IF k \in {"set_count", "set_ucount"} THEN ok(PutCount(s.h, a[1], a[2]))
  ELSE IF k = "inc" THEN
    IF HCount(s.h, a[1]) = 65535 THEN Res(s, 1) ELSE ok(PutCount(s.h, a[1], HCount(s.h, a[1]) + 1))
  ELSE IF k = "dec" THEN
    IF HCount(s.h, a[1]) = 0 THEN Res(s, 2) ELSE ok(PutCount(s.h, a[1], HCount(s.h, a[1]) - 1))
  ELSE IF k = "set_counts" THEN ok([i \in 1..12 |-> IF i <= 4 THEN s.h[i] ELSE a[i - 4]])
  ELSE IF k = "oh_udp" THEN okO(OPutUdp(s.o[1], a[1]))
  ELSE IF k = "oh_rcode" THEN okO(OPutExt(s.o[1], RcExt(a[1])))    \* OptHeader::set_rcode: upper bits only
  ELSE IF k = "oh_version" THEN okO(OPutVer(s.o[1], a[1]))
  ELSE IF k = "oh_do" THEN okO(OPutDo(s.o[1], a[1]))
  ELSE IF k = "goto" THEN
    IF a[1] >= s.g THEN Res([s EXCEPT !.g = a[1]], 0)
    ELSE Res([h |-> Rewind(s.h, s.g, a[1]), o |-> <<>>, g |-> a[1]], 0)
  ELSE IF k = "push" THEN      \* a = <<fits>>: one question / record in the current section
    IF a[1] = 0 \/ HCount(s.h, s.g - 1) = 65535 THEN Res(s, 1)
    ELSE ok(PutCount(s.h, s.g - 1, HCount(s.h, s.g - 1) + 1))
  ELSE IF k = "opt" THEN       \* a = <<closure returns Err, fits, subs...>>
    LET m == OptSubs(s.h, OptDefault, a, 3)
        seen == <<OUdp(m.o), RcJoin(HGet(m.h, "rcode"), OExt(m.o)), OVer(m.o), ODo(m.o)>>
    IN IF a[1] = 0 /\ a[2] = 1 /\ HCount(s.h, 3) < 65535
       THEN [s |-> [s EXCEPT !.h = PutCount(m.h, 3, HCount(s.h, 3) + 1), !.o = Append(s.o, m.o)],
             r |-> 0, c |-> seen]
       ELSE [s |-> IF "D_opt_fail_keeps_rcode" \in D THEN [s EXCEPT !.h = m.h] ELSE s,
             r |-> 1, c |-> seen]
  ELSE IF k \in {"start_answer", "start_error"} THEN
    \* a = <<request flag word, request id, questions in the request, rcode,
    \*       questions that fit>>; the builder is in stage 0
    LET h1 == ScaffoldHeader(s.h, a[1], a[2], a[4])
        all == a[5] >= a[3]
    IN IF all THEN Res([h |-> PutCount(h1, 0, a[3]), o |-> <<>>, g |-> 2], 0)
       ELSE IF k = "start_answer" THEN Res(Fresh, 1)      \* the builder is consumed
       ELSE Res([h |-> PutCount(HPut(h1, "rcode", 2), 0, a[5]), o |-> <<>>, g |-> 2], 0)
  ELSE IF k = "request_axfr" THEN    \* a = <<fits, the id that was drawn>>
    IF a[1] = 1 THEN Res([h |-> PutCount(PutId(s.h, a[2]), 0, 1), o |-> <<>>, g |-> 2], 0)
    ELSE Res(Fresh, 1)
  ELSE Res(s, 9)

Enabled(s, op) ==
  LET k == op.k IN
  IF k \in HeaderOps THEN TRUE
  ELSE IF k \in CountOps \cup OptHeaderOps THEN s.g = -1
  ELSE IF k = "goto" THEN s.g >= 0
  ELSE IF k = "push" THEN s.g >= 1
  ELSE IF k = "opt" THEN s.g = 4
  ELSE s.g = 0 /\ HCount(s.h, 0) = 0

\* what the getters report for a state, in a fixed order:
\* id qr opcode aa tc rd ra z ad cd rcode flags | qd an ns ar | zo pr up adc |
\* OPT present, udp, 12-bit rcode, version, DO | no_error
Getters(s) ==
  LET h == s.h
      has == s.o # <<>>
      o1 == IF has THEN s.o[1] ELSE OptDefault
  IN <<HId(h), HGet(h, "qr"), HGet(h, "opcode"), HGet(h, "aa"), HGet(h, "tc"), HGet(h, "rd"),
       HGet(h, "ra"), HGet(h, "z"), HGet(h, "ad"), HGet(h, "cd"), HGet(h, "rcode"), FlagsMask(h),
       HCount(h, 0), HCount(h, 1), HCount(h, 2), HCount(h, 3),
       HCount(h, 0), HCount(h, 1), HCount(h, 2), HCount(h, 3),
       B(has), IF has THEN OUdp(o1) ELSE 0, MsgRcode(h, s.o), IF has THEN OVer(o1) ELSE 0,
       IF has THEN ODo(o1) ELSE 0, B(HGet(h, "rcode") = 0)>>

Proj(res) == [h |-> res.s.h, o |-> res.s.o, g |-> res.s.g, r |-> res.r, c |-> res.c, x |-> Getters(res.s)]

---------------------------------------------------------------------------
(* Message::copy_records: the kept records of the three record sections are  *)
(* pushed in order to a builder that already holds `pre` answers; cap is the  *)
(* number of pushes that fit.  src = <<answer ids, authority ids, additional  *)
(* ids>>, keep a set of ids.                                                   *)
RECURSIVE Filter(_, _)
Filter(ids, keep) ==
  IF ids = <<>> THEN <<>>
  ELSE (IF Head(ids) \in keep THEN <<Head(ids)>> ELSE <<>>) \o Filter(Tail(ids), keep)
CopyRecords(src, keep, cap, pre) ==
  LET k1 == Filter(src[1], keep)  k2 == Filter(src[2], keep)  k3 == Filter(src[3], keep)
  IN IF Len(k1) + Len(k2) + Len(k3) > cap THEN [ok |-> 0, sec |-> <<>>, counts |-> <<>>]
     ELSE [ok |-> 1, sec |-> <<pre \o k1, k2, k3>>,
           counts |-> <<Len(pre) + Len(k1), Len(k2), Len(k3)>>]

(* display_dig_style: the values shown in the two header lines, the EDNS      *)
(* line, and the number of lines printed per section.  d = [w, id, nq, an,    *)
(* ns, ar (numbers of non-OPT records), opt (<<>> or <<udp, ext, ver, do>>)]   *)
Dig(d, D) ==
  LET has == d.opt # <<>>
      low == GetW(d.w, "rcode")
      rc == IF has /\ ~("D_dig_rcode_low_bits" \in D) THEN RcJoin(low, d.opt[2]) ELSE low
      arcount == d.ar + B(has)
  IN [opcode |-> OpcodeText(GetW(d.w, "opcode")), rcode |-> RcodeText(rc), id |-> d.id,
      flags |-> FlagTokens(FlagsMask(PutWord(HdrZero, d.w))),
      counts |-> <<d.nq, d.an, d.ns, arcount>>,
      lines |-> <<d.nq, d.an, d.ns, d.ar>>,
      edns |-> IF has THEN <<d.opt[3], d.opt[4], d.opt[1]>> ELSE <<>>]
=============================================================================
