CONSTANTS
  Dev = {}
  Mut = {}
  AdvOn = {"ANS", "DS", "DNSKEY"}
  AnchorForms = {"dnskey"}
  Cfgs = {"default"}
  MaxRuns = 2
  EntQKinds = {"positive"}
  Budget = 1
  Shapes = {"secure3", "insecure3"}
  Denials = {"nsec", "nsec3"}
  QKinds = {"positive", "nxdeep"}
  AdvActs = {"ShortSig", "CorruptSigOctets", "Expire", "DropRrsig", "ReplaceRdata", "CorruptKey", "CorruptDs", "SwapProof", "StripProof", "AddBadSig", "AddCollidingKey", "AddExtraDs"}
SPECIFICATION Spec
VIEW View
INVARIANT Soundness
INVARIANT HonestSecure
INVARIANT InsecureNotBogus
INVARIANT WithinAllowed
INVARIANT CacheTransparent
INVARIANT NoPanic
INVARIANT Terminates
INVARIANT NoAnchorNotSecure
INVARIANT LimitsEnforced
INVARIANT Emit
CHECK_DEADLOCK TRUE
