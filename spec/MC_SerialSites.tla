--------------------------- MODULE MC_SerialSites ---------------------------
(* Freshness of a timestamp relative to a verifier's clock (property C17,   *)
(* the laws applied to the decision "is this cookie timestamp between one   *)
(* hour old and five minutes ahead of now"): site                           *)
(* CookiesMiddlewareSvc::timestamp_ok.  The verifier's clock `now` and the  *)
(* presented timestamp `ts` range over all k-bit values, so pairs at the    *)
(* undefined distance and pairs on either side of the wrap-around are as    *)
(* common as any other.  Actions: `Shift` -- time passes for everybody;     *)
(* `Tick` -- the verifier's clock advances one second; `Renew` -- a         *)
(* timestamp made one second later is presented.                            *)
(*                                                                          *)
(* S->I.  The window constants of the site are fixed numbers of seconds     *)
(* (PAST = 3600, FUTURE = 300), so the scaled embedding cannot scale them.  *)
(* Each k-bit pair (now, ts) is therefore lifted inside TLC to 32 bits in   *)
(* limb form (SerialLimbs at LW = 16, TLC-proved equal to Serial at small   *)
(* widths): now32 = now * 2^(32-k) + c,  ts32 = now32 + d * 2^(32-k) + e    *)
(* with d = (ts - now) mod 2^k, c from NowOffsets and e a signed number of  *)
(* seconds from NearDeltas (around both window ends, 0, and beyond 2^16).   *)
(* The expectation is LFreshDecision at 32 bits; the invariant ILifted ties *)
(* it back to the k-bit pair: d # 0 (incl. the undefined distance, where    *)
(* e = 0 gives exactly 2^31) is always "reject", d = 0 is decided by e.     *)
EXTENDS SerialSites, Sequences, FiniteSets, TLC, Json

CONSTANT Sites        \* the site table (SerialSites!SiteTable)

L == INSTANCE SerialLimbs WITH LW <- 16

VARIABLES now, ts
fvars == <<now, ts>>

\* k-bit window constants for the laws (past, future)
Params == {<<1, 0>>, <<0, 1>>, <<2, 1>>, <<3, 2>>, <<H - 3, 1>>, <<1, H - 3>>}

Init == now \in Val /\ ts \in Val
Shift(n) == now' = Add(now, n) /\ ts' = Add(ts, n)
Tick     == now' = Add(now, 1) /\ ts' = ts
Renew    == ts' = Add(ts, 1) /\ now' = now
ShiftAny == \E n \in Addend : Shift(n)
Next == ShiftAny \/ Tick \/ Renew
Spec == Init /\ [][Next]_fvars
GenSpec == Init /\ [][UNCHANGED fvars]_fvars

----------------------------------------------------------------------------
ITypeOK == \A pf \in Params : FreshDecision(now, ts, pf[1], pf[2]) \in {"accept", "reject", "any"}
\* window form = distance form = the middleware's two comparisons
ILaw == \A pf \in Params : LawFresh(now, ts, pf[1], pf[2])
\* exactly past + future + 1 timestamps are fresh at any clock value
ICount == ts = 0 => \A pf \in Params : FreshParamsOK(pf[1], pf[2]) =>
   Cardinality({y \in Val : Fresh(now, y, pf[1], pf[2])}) = pf[1] + pf[2] + 1
\* a timestamp at the undefined distance from the clock is never fresh
IUndefStale == \A pf \in Params :
   (FreshParamsOK(pf[1], pf[2]) /\ Cmp(now, ts) = "UNDEF") => ~Fresh(now, ts, pf[1], pf[2])
IShift == \A pf \in Params : \A n \in {0, 1, H - 1, (M - now) % M, (M - ts) % M} \cap Addend :
   LawFreshShift(now, ts, pf[1], pf[2], n)

\* law 4 on the Shift step
PShift == [][((now' - now) % M = (ts' - ts) % M /\ (now' - now) % M \in Addend)
               => \A pf \in Params :
                     Fresh(now', ts', pf[1], pf[2]) = Fresh(now, ts, pf[1], pf[2])]_fvars
\* a fresh timestamp stays fresh while the clock advances until it is `past` old
PTick == [][(now' = Add(now, 1) /\ ts' = ts) => \A pf \in Params :
               (FreshParamsOK(pf[1], pf[2]) /\ Fresh(now, ts, pf[1], pf[2]))
                  => (Fresh(now', ts', pf[1], pf[2]) <=> (now - ts) % M # pf[1])]_fvars
\* the next timestamp is fresh too unless it passes the future end
PRenew == [][(ts' = Add(ts, 1) /\ now' = now) => \A pf \in Params :
               (FreshParamsOK(pf[1], pf[2]) /\ Fresh(now, ts, pf[1], pf[2]))
                  => (Fresh(now', ts', pf[1], pf[2]) <=> (ts - now) % M # pf[2])]_fvars

IVacuity == (now = 0 /\ ts = 0) =>
   /\ \E pf \in Params : FreshParamsOK(pf[1], pf[2])
   /\ \E n \in Val, t \in Val : n > t /\ (t - n) % M <= 1     \* fresh across the wrap
   /\ \E n \in Val, t \in Val : Cmp(n, t) = "UNDEF"

----------------------------------------------------------------------------
(* S->I: the lift in limb form *)
U == 2 ^ (16 - BITS)                  \* one k-bit unit in the high limb
ASSUME BITS <= 8

ELimbs(n) == <<n \div 65536, n % 65536>>     \* n in 0 .. 2^31 - 1
NowOffsets == {<<0, 0>>, <<0, 299>>, <<0, 3600>>, <<U \div 3, 12345>>, <<U - 1, 65535>>}
NearDeltas == {-70000, -3601, -3600, -3599, -1, 0, 1, 299, 300, 301, 70000}
LPast == ELimbs(PAST)
LFuture == ELimbs(FUTURE)

Now32(c) == <<now * U + c[1], c[2]>>
Ts32(c, e) ==
  LET far == L!LAdd(Now32(c), <<((ts - now) % M) * U, 0>>)
  IN IF e >= 0 THEN L!LAdd(far, ELimbs(e)) ELSE L!LSub(far, ELimbs(-e))

Lifted(c, e) == L!LFreshDecision(Now32(c), Ts32(c, e), LPast, LFuture)

\* the 32-bit expectation, read back in terms of the k-bit pair
ILifted == \A c \in NowOffsets, e \in NearDeltas :
   /\ L!IsLVal(Now32(c)) /\ L!IsLVal(Ts32(c, e))
   /\ now # ts => Lifted(c, e) = "reject"
   /\ now = ts => Lifted(c, e) = (IF e \in {-PAST, FUTURE} THEN "any"
                                  ELSE IF e \in -PAST .. FUTURE THEN "accept" ELSE "reject")
   \* the undefined pairs of RFC 1982 are among the lifted cases
   /\ (Cmp(now, ts) = "UNDEF" /\ e = 0) => L!LSub(Ts32(c, e), Now32(c)) = L!LHalf
   /\ (Cmp(now, ts) = "UNDEF") = (L!LCmp(Now32(c), Ts32(c, 0)) = "UNDEF")

EmitFresh == \A c \in NowOffsets, e \in NearDeltas :
  PrintT("CASE " \o ToJson(
   [in  |-> [kind |-> "fresh", k |-> BITS, a |-> now, b |-> ts,
             now |-> Now32(c), ts |-> Ts32(c, e), e |-> e,
             straddle |-> (/\ L!LFresh(Now32(c), Ts32(c, e), LPast, LFuture)
                           /\ Ts32(c, e) # Now32(c)
                           /\ L!LLess(Ts32(c, e), Now32(c)) # (L!LCmp(Ts32(c, e), Now32(c)) = "LT"))],
    exp |-> [s \in SitesOf(Sites, "fresh") |-> Lifted(c, e)]]))
=============================================================================
