----------------------------- MODULE BatcherFn -----------------------------
(***************************************************************************)
(* X05 -- the response batcher as a function                               *)
(* (src/net/server/batcher.rs CallbackBatcher::push / finish with the      *)
(* callbacks of src/net/server/middleware/xfr/batcher.rs).                 *)
(*                                                                         *)
(* A record is known by its wire size.  A batcher has the parameters       *)
(*   H   octets of every message before the first record (header +        *)
(*       question),                                                        *)
(*   L   the push limit (message octets),                                  *)
(*   RR  the hard record limit per message (0 = none; 1 in RFC 5936        *)
(*       section 7 compatibility mode),                                    *)
(*   MF  "must fit in a single message" (UDP).                             *)
(* PushStep / FinishStep are transcriptions of try_push/push_ref/finish;   *)
(* IsGreedyPartition is the declarative reading of the module doc          *)
(* ("filling each DNS response message as much as possible one message at  *)
(* a time").  Used by Batcher.tla (the machine) and by NotifyXfrReq.tla    *)
(* (the XFR responder).                                                    *)
(***************************************************************************)
EXTENDS Integers, Sequences, FiniteSets

RECURSIVE Sum(_)
Sum(s) == IF s = <<>> THEN 0 ELSE Head(s) + Sum(Tail(s))

RECURSIVE Flatten(_)
Flatten(ss) == IF ss = <<>> THEN <<>> ELSE Head(ss) \o Flatten(Tail(ss))

Params(h, l, rr, mf) == [H |-> h, L |-> l, RR |-> rr, MF |-> mf]

\* the record fits behind the records `cur` of the message being built.
\* MessageBuilder refuses a push that makes the message *reach* the limit
\* (new_pos >= limit); whether a message of exactly L octets "exceeds" the
\* limit is left open by the property (C02 admits both), so the bindings
\* never depend on it: generated cases avoid a total of exactly L (Boundary)
\* and the trace validators skip such events.
Within(total, p) == total < p.L
Boundary(total, p) == total = p.L
Fits(cur, s, p) == Within(p.H + Sum(cur) + s, p)

\* result of one call: the records left in the builder, the batches handed
\* to batch_ready by this call (in order), and what the call returned
R(open, emit, res) == [open |-> open, emit |-> emit, res |-> res]

\* CallbackBatcher::push(record of size s) with `cur` in the builder
PushStep(cur, s, p) ==
  IF Fits(cur, s, p) THEN
     LET c2 == Append(cur, s) IN
     IF p.RR > 0 /\ Len(c2) = p.RR
     THEN \* PushedAndLimitReached -> batch_ready(.., finished = false)
          IF p.MF THEN R(<<>>, <<>>, "mustfit") ELSE R(<<>>, <<c2>>, "ok")
     ELSE R(c2, <<>>, "ok")
  ELSE IF cur # <<>> THEN
     \* NotPushedMessageFull -> batch_ready(cur, false), then Retry
     IF p.MF THEN R(<<>>, <<>>, "mustfit")
     ELSE IF Fits(<<>>, s, p)
          THEN IF p.RR = 1 THEN R(<<>>, <<cur, <<s>>>>, "ok") ELSE R(<<s>>, <<cur>>, "ok")
          ELSE R(<<>>, <<cur>>, "err")     \* the record does not fit an empty message
  ELSE R(<<>>, <<>>, "err")

\* CallbackBatcher::finish()
FinishStep(cur, p) == IF cur = <<>> THEN R(<<>>, <<>>, "ok") ELSE R(<<>>, <<cur>>, "ok")

\* push all of `sizes`, stop at the first call that does not return ok, then
\* finish: [res, lens (the lengths of the batches handed out), at (index of
\* the failing push, 0 if none)].  The same transcription as PushStep, but
\* carrying only the length n and the size sum of the open batch (linear
\* time; MC_Batcher checks that it agrees with the machine).
\* amb: some comparison met a total of exactly L
RECURSIVE PackFrom(_, _, _, _, _, _, _)
PackFrom(sizes, i, n, sum, lens, amb, p) ==
  IF i > Len(sizes)
  THEN [res |-> "ok", lens |-> IF n = 0 THEN lens ELSE Append(lens, n), at |-> 0, amb |-> amb]
  ELSE LET s == sizes[i]
           a1 == amb \/ Boundary(p.H + sum + s, p)
       IN
       IF Within(p.H + sum + s, p) THEN
          IF p.RR > 0 /\ n + 1 = p.RR
          THEN IF p.MF THEN [res |-> "mustfit", lens |-> lens, at |-> i, amb |-> a1]
               ELSE PackFrom(sizes, i + 1, 0, 0, Append(lens, n + 1), a1, p)
          ELSE PackFrom(sizes, i + 1, n + 1, sum + s, lens, a1, p)
       ELSE IF n > 0 THEN
          IF p.MF THEN [res |-> "mustfit", lens |-> lens, at |-> i, amb |-> a1]
          ELSE LET a2 == a1 \/ Boundary(p.H + s, p) IN
               IF Within(p.H + s, p)
               THEN IF p.RR = 1 THEN PackFrom(sizes, i + 1, 0, 0, lens \o <<n, 1>>, a2, p)
                    ELSE PackFrom(sizes, i + 1, 1, s, Append(lens, n), a2, p)
               ELSE [res |-> "err", lens |-> Append(lens, n), at |-> i, amb |-> a2]
       ELSE [res |-> "err", lens |-> lens, at |-> i, amb |-> a1]
PackAll(sizes, p) == PackFrom(sizes, 1, 0, 0, <<>>, FALSE, p)

-----------------------------------------------------------------------------
(* Declarative side *)

\* "no message exceeds the limit" in the weakest reading
BatchOk(b, p) == /\ b # <<>>
                 /\ p.H + Sum(b) <= p.L
                 /\ (p.RR > 0 => Len(b) <= p.RR)

\* bs is THE greedy partition of seq: order and multiplicity kept, every
\* batch non-empty and within the limits, and no batch but the last could
\* have taken the first record of its successor
IsGreedyPartition(bs, seq, p) ==
  /\ Flatten(bs) = seq
  /\ \A i \in 1 .. Len(bs) : BatchOk(bs[i], p)
  /\ \A i \in 1 .. Len(bs) - 1 :
        \/ (p.RR > 0 /\ Len(bs[i]) = p.RR)
        \/ ~Fits(bs[i], Head(bs[i + 1]), p)
=============================================================================
