CONSTANTS
  Dev = {}
  Big = FALSE
SPECIFICATION Spec
INVARIANT UsedBounded
INVARIANT WalkAgrees
INVARIANT NameLaws
INVARIANT WireLaws
PROPERTY MeasureDecreases
CHECK_DEADLOCK FALSE
