CONSTANTS
  Dev = {}
  MaxRecs = 2
SPECIFICATION Spec
INVARIANT Emit
CHECK_DEADLOCK FALSE
