----------------------------- MODULE MsgBuilder -----------------------------
(* C02 -- the message builder of src/base/message_builder.rs.               *)
(*                                                                          *)
(* State: the target buffer (real offsets), the compressor's position       *)
(* table, the section the builder is in and where the record sections        *)
(* start, the push limit, the stream length prefix, and as ghosts the items  *)
(* whose push succeeded and the pointers the compressor emitted.             *)
(* One action per public call: push a question / a record / an OPT record,   *)
(* section conversions (forward: remember where the section starts;           *)
(* backward: truncate), rewind, set / clear the push limit, finish; writing    *)
(* the first four octets through header_mut(); and the composite calls         *)
(* start_answer / start_error / request_axfr (header fields from a request,    *)
(* its questions pushed, then the answer section).                             *)
(*                                                                          *)
(* A push is literally MessageBuilder::push: append; fail if the target is   *)
(* full; fail if the new length reaches the limit; increment the count; on    *)
(* any failure truncate to the saved length -- and truncating also prunes     *)
(* the compressor table.  That a failed push is a no-op is therefore not      *)
(* built in but checked (FailedPushIsNoop).                                   *)
(*                                                                          *)
(* The three compressors are transcribed individually (they differ in what   *)
(* they remember and how they look names up); the properties do not depend   *)
(* on which earlier occurrence is chosen (ParseBack reads the buffer with     *)
(* the RFC 1035 reader of MsgBuilderWire).                                    *)
EXTENDS MsgBuilderWire

CONSTANT Dev     \* named deviations of today's code, see DESIGN 2.6

\* D_opt_rcode_sticks: OptBuilder::set_rcode writes the low four bits of the
\* extended RCODE into the message header at once; when the OPT push then
\* fails (no room for the options, push limit) the record is cut off again but
\* the header keeps the new RCODE.
\*
\* D_ptr_limit_c000: StaticCompressor::insert, TreeCompressor::insert,
\* HashEntry::new and the three Truncate guards compare offsets with 0xC000
\* although a compression pointer has 14 bits.  The pointer that is written,
\* (pos | 0xC000), is the offset modulo 16384.
PtrLimit == IF "D_ptr_limit_c000" \in Dev THEN 49152 ELSE 16384
TruncGuard == PtrLimit
PtrOcts(off) == EncU16(49152 + (off % 16384))

NoLimit == 2000000000     \* usize::MAX
Unbounded == 1000000000   \* capacity of Vec / BytesMut
Comps == {"none", "static", "tree", "hash"}
StaticCap == 24

VARIABLES
  cfg,       \* [comp, tgt, cap]: compressor, target kind, capacity (octets of message)
  buf,       \* the message octets (without the stream prefix)
  tab,       \* compressor table, shape depends on cfg.comp (see below)
  plog,      \* ghost: pointers emitted, [at, to, name] with name the suffix meant
  section,   \* 0 builder, 1 question, 2 answer, 3 authority, 4 additional, 5 finished
  starts,    \* <<_, s2, s3, s4>>: offset where sections 2..4 start
  limit,     \* push limit
  shim,      \* value of the two-octet length prefix (stream target)
  accepted,  \* ghost: sequence of [sec, item] of the pushes that succeeded and were not rewound
  hdr,       \* ghost: the first four octets (ID, flags, opcode, RCODE) as last set by a successful call
  res,       \* result of the last call: "ok" / "err" for pushes, "-" otherwise
  amb        \* ghost: the last push composed to exactly `limit` octets (see MayOk)

vars == <<cfg, buf, tab, plog, section, starts, limit, shim, accepted, hdr, res, amb>>

--------------------------------------------------------------------------
(* Compressor tables.                                                       *)
(*  static: sequence of at most 24 offsets in insertion order; a name is     *)
(*          looked up by reading the names at these offsets out of the       *)
(*          buffer (Label::iter_slice follows pointers) and comparing        *)
(*          labels ignoring ASCII case;                                      *)
(*  tree:   set of [key, off], key the exact label sequence (the HashMap      *)
(*          keys are the raw label octets: case-sensitive);                   *)
(*  hash:   set of [head, tail]: the label at offset head followed by the     *)
(*          name at offset tail (65535 for the root); looked up from the      *)
(*          root leftwards, labels compared ignoring case.                    *)

EmptyTab(c) == IF c = "static" THEN <<>> ELSE {}

\* Label::iter_slice(buf, start) collected: the labels it yields and whether
\* it ended with the root label.  (A pointer to itself would spin in the
\* implementation -- C01 D_slice_iter_selfptr; the builder never writes one.)
RECURSIVE IterSliceAt(_, _, _)
IterSliceAt(b, p, acc) ==
  LET stop == [labels |-> acc, root |-> FALSE] IN
  IF p >= b.len THEN stop
  ELSE LET h == At(b, p) IN
    IF h = 0 THEN [labels |-> acc, root |-> TRUE]
    ELSE IF h <= 63 THEN
      IF p + 1 + h > b.len THEN stop
      ELSE IterSliceAt(b, p + 1 + h, Append(acc, Slice(b, p + 1, h)))
    ELSE IF h >= 192 THEN
      IF p + 1 >= b.len THEN stop
      ELSE LET t == (h - 192) * 256 + At(b, p + 1) IN
        IF t >= p THEN stop ELSE IterSliceAt(b, t, acc)
    ELSE stop

StaticGet(b, t, rem) ==
  LET hits == {i \in 1..Len(t) : LET r == IterSliceAt(b, t[i], <<>>)
                                 IN r.root /\ NameEq(r.labels, rem)}
  IN IF hits = {} THEN -1 ELSE t[SetMin(hits)]
TreeGet(t, rem) ==
  LET hits == {e \in t : e.key = rem} IN
  IF hits = {} THEN -1 ELSE (CHOOSE e \in hits : TRUE).off
ReadLabel(b, h) == Slice(b, h + 1, At(b, h))
HashHits(b, t, label, pos) ==
  {e \in t : e.tail = pos /\ At(b, e.head) <= 63 /\ LabelEq(ReadLabel(b, e.head), label)}

LabelOcts(l) == <<Len(l)>> \o l

\* state threaded through composing: [b, tab, plog]
Ptr(st, off, rem) ==
  [st EXCEPT !.b = BAppend(st.b, PtrOcts(off)),
             !.plog = st.plog \cup {[at |-> st.b.len, to |-> off, name |-> rem]}]

\* StaticCompressor / TreeCompressor :: append_compressed_name share the loop
RECURSIVE SuffixLoop(_, _, _)
SuffixLoop(c, st, rem) ==
  IF rem = <<>> THEN [st EXCEPT !.b = BAppend(st.b, <<0>>)]
  ELSE LET g == IF c = "static" THEN StaticGet(st.b, st.tab, rem) ELSE TreeGet(st.tab, rem) IN
    IF g >= 0 THEN Ptr(st, g, rem)
    ELSE LET pos == st.b.len
             canIns == IF c = "static" THEN pos < PtrLimit /\ Len(st.tab) < StaticCap
                       ELSE pos < PtrLimit
         IN IF ~canIns THEN [st EXCEPT !.b = BAppend(st.b, ToWireAbs(rem))]
            ELSE SuffixLoop(c,
                   [st EXCEPT !.tab = IF c = "static" THEN Append(st.tab, pos)
                                      ELSE st.tab \cup {[key |-> rem, off |-> pos]},
                              !.b = BAppend(st.b, LabelOcts(Head(rem)))],
                   Tail(rem))

\* HashCompressor::append_compressed_name
RECURSIVE HashLookup(_, _, _, _, _)
HashLookup(b, t, name, k, pos) ==   \* k: label examined now, from the right
  IF k = 0 THEN [k |-> 0, pos |-> pos]
  ELSE LET m == HashHits(b, t, name[k], pos) IN
    IF m = {} THEN [k |-> k, pos |-> pos]
    ELSE HashLookup(b, t, name, k - 1, (CHOOSE e \in m : TRUE).head)

RECURSIVE HashWrite(_, _, _, _, _)
HashWrite(st, name, i, k, pos) ==   \* write labels i..k, remember them
  IF i > k THEN st
  ELSE LET head == st.b.len
           tail == IF i = k THEN pos ELSE head + 1 + Len(name[i])
       IN HashWrite([st EXCEPT !.b = BAppend(st.b, LabelOcts(name[i])),
                               !.tab = IF head < PtrLimit
                                       THEN st.tab \cup {[head |-> head, tail |-> tail]}
                                       ELSE st.tab],
                    name, i + 1, k, pos)

HashName(st, name) ==
  LET l == HashLookup(st.b, st.tab, name, Len(name), 65535)
      w == HashWrite(st, name, 1, l.k, l.pos)
  IN IF l.pos # 65535 THEN Ptr(w, l.pos, SubSeq(name, l.k + 1, Len(name)))
     ELSE [w EXCEPT !.b = BAppend(w.b, <<0>>)]

AppendName(c, st, name) ==
  CASE c = "none" -> [st EXCEPT !.b = BAppend(st.b, ToWireAbs(name))]
    [] c = "hash" -> HashName(st, name)
    [] OTHER      -> SuffixLoop(c, st, name)

\* Truncate for the compressors: the target is cut, and positions at or
\* beyond the new length are forgotten
TruncTab(c, t, n) ==
  IF c = "none" \/ n >= TruncGuard THEN t
  ELSE IF c = "static" THEN
    LET over == {i \in 1..Len(t) : t[i] >= n} IN
    IF over = {} THEN t ELSE SubSeq(t, 1, SetMin(over) - 1)
  ELSE IF c = "tree" THEN {e \in t : e.off < n}
  ELSE {e \in t : e.head < n}

TruncSt(c, st, n) ==
  [b |-> BTrunc(st.b, n), tab |-> TruncTab(c, st.tab, n),
   plog |-> {e \in st.plog : e.at < n}]

--------------------------------------------------------------------------
(* Composing items: Question::compose, Record::compose with                 *)
(* compose_len_rdata (RDLENGTH written first when it is known, otherwise     *)
(* two zero octets are patched after the data has been written -- either      *)
(* way the field holds the number of octets that follow).                    *)

RECURSIVE ComposeParts(_, _, _, _)
ComposeParts(c, st, rd, i) ==
  IF i > Len(rd) THEN st
  ELSE LET p == rd[i]
           nx == CASE p.k = "o" -> [st EXCEPT !.b = BAppend(st.b, p.o)]
                   [] p.k = "f" -> [st EXCEPT !.b = BFill(st.b, p.n)]
                   [] p.k = "n" -> IF p.c THEN AppendName(c, st, p.n)
                                   ELSE [st EXCEPT !.b = BAppend(st.b, ToWireAbs(p.n))]
       IN ComposeParts(c, nx, rd, i + 1)

ComposeItem(c, st, item) ==
  LET a == AppendName(c, st, item.name) IN
  IF item.k = "q" THEN
    [a EXCEPT !.b = BAppend(a.b, EncU16(item.qtype) \o EncU16(item.qclass))]
  ELSE
    LET h == [a EXCEPT !.b = BAppend(a.b, EncU16(item.rtype) \o EncU16(item.class)
                                            \o item.ttl \o <<0, 0>>)]
        pos == h.b.len
        d == ComposeParts(c, h, item.rd, 1)
    IN [d EXCEPT !.b = BPatch16(d.b, pos - 2, d.b.len - pos)]

--------------------------------------------------------------------------
Init0(c, t, cap) ==
  /\ cfg = [comp |-> c, tgt |-> t, cap |-> cap]
  /\ buf = BAppend(EmptyBuf, [i \in 1..12 |-> 0])
  /\ tab = EmptyTab(c)
  /\ plog = {}
  /\ section = 0
  /\ starts = <<12, 12, 12, 12>>
  /\ limit = NoLimit
  /\ shim = 12
  /\ accepted = <<>>
  /\ hdr = <<0, 0, 0, 0>>
  /\ res = "-"
  /\ amb = FALSE

St == [b |-> buf, tab |-> tab, plog |-> plog]
CountOff(sec) == 2 + 2 * sec        \* qdcount at 4, ancount 6, nscount 8, arcount 10

\* the admissible results of pushing when the composed message would be n
\* octets long.  The implementation refuses n >= limit; whether a message of
\* exactly `limit` octets is "exceeding the limit" is not fixed by the
\* property, so both results are admitted for n = limit.
MayOk(n, sec)  == n <= cfg.cap /\ n <= limit /\ BU16(buf, CountOff(sec)) < 65535
MayErr(n, sec) == n > cfg.cap \/ n >= limit \/ BU16(buf, CountOff(sec)) = 65535
Ambiguous(n) == n <= cfg.cap /\ n = limit

\* the first four octets of a buffer replaced (they are always concrete)
BSetHdr(b, h) == [b EXCEPT !.s = [i \in 1..Len(@) |-> IF i <= 4 THEN h[i] ELSE @[i]]]
BHdr(b) == SubSeq(b.s, 1, 4)
\* the RCODE (low four bits of the fourth octet) replaced
WithRcode(h, rc) == [h EXCEPT ![4] = (@ - (@ % 16)) + rc]

\* (\E x \in {e} : ... makes TLC evaluate e once)
\* hd: the header octets the call writes while it composes (OptBuilder::set_rcode), or
\* the present ones
PushH(sec, item, hd) ==
  \E c \in {ComposeItem(cfg.comp, St, item)} :       \* after appending
    LET n == c.b.len IN
    /\ amb' = Ambiguous(n)
    /\ \/ /\ MayOk(n, sec)
          /\ buf' = BSetHdr(BPatch16(c.b, CountOff(sec), BU16(buf, CountOff(sec)) + 1), hd)
          /\ tab' = c.tab
          /\ plog' = c.plog
          /\ shim' = n
          /\ accepted' = Append(accepted, [sec |-> sec, item |-> item])
          /\ hdr' = hd
          /\ res' = "ok"
          /\ UNCHANGED <<cfg, section, starts, limit>>
       \/ /\ MayErr(n, sec)
          /\ \E t \in {TruncSt(cfg.comp, c, buf.len)} :     \* target.truncate(pos)
               \* (the closure given to opt() runs once the fixed part of the OPT
               \* record, 11 octets, has found room)
               /\ buf' = IF "D_opt_rcode_sticks" \in Dev /\ buf.len + 11 <= cfg.cap
                         THEN BSetHdr(t.b, hd) ELSE t.b
               /\ tab' = t.tab /\ plog' = t.plog /\ shim' = t.b.len
          /\ res' = "err"
          /\ UNCHANGED <<cfg, section, starts, limit, accepted, hdr>>
Push(sec, item) == PushH(sec, item, BHdr(buf))

PushQuestion(q) == section = 1 /\ q.k = "q" /\ Push(1, q)
PushRecord(r)   == section \in 2..4 /\ r.k = "r" /\ Push(section, r)
IsOpt(r)        == r.k = "r" /\ r.rtype = 41 /\ r.name = <<>>
PushOpt(r)      == section = 4 /\ IsOpt(r) /\ Push(4, r)
\* AdditionalBuilder::opt with OptBuilder::set_rcode(rc), rc the 12-bit extended
\* RCODE: its upper eight bits are the first TTL octet of the record, its lower
\* four bits go into the message header
PushOptRcode(r, rc) ==
  /\ section = 4 /\ IsOpt(r) /\ rc \in 0..4095 /\ r.ttl[1] = rc \div 16
  /\ PushH(4, r, WithRcode(BHdr(buf), rc % 16))

\* truncate to offset n and zero the counts of the sections above s
CutTo(n, s) ==
  LET t == TruncSt(cfg.comp, St, n)
      z2 == IF s < 1 THEN BPatch16(t.b, 4, 0) ELSE t.b
      z3 == IF s < 2 THEN BPatch16(z2, 6, 0) ELSE z2
      z4 == IF s < 3 THEN BPatch16(z3, 8, 0) ELSE z3
      z5 == IF s < 4 THEN BPatch16(z4, 10, 0) ELSE z4
  IN /\ buf' = z5 /\ tab' = t.tab /\ plog' = t.plog /\ shim' = n
     /\ accepted' = SelectSeq(accepted, LAMBDA a : a.sec <= s)

SecStart(s) == IF s = 1 THEN 12 ELSE starts[s]

\* question() / answer() / authority() / additional() / builder() on any builder
GotoSection(s) ==
  /\ section \in 0..4 /\ s \in 0..4
  /\ res' = "-" /\ amb' = FALSE
  /\ section' = s
  /\ IF s >= section
     THEN \* forward: every record section entered starts at the current end
          /\ starts' = [k \in 1..4 |-> IF k >= 2 /\ k > section /\ k <= s THEN buf.len ELSE starts[k]]
          /\ UNCHANGED <<cfg, buf, tab, plog, limit, shim, accepted, hdr>>
     ELSE \* backward: the sections above s are rewound, highest first
          /\ CutTo(SecStart(s + 1), s)
          /\ UNCHANGED <<cfg, starts, limit, hdr>>

\* rewind() of the section builder one is in
Rewind ==
  /\ section \in 1..4
  /\ res' = "-" /\ amb' = FALSE
  /\ CutTo(SecStart(section), section - 1)
  /\ UNCHANGED <<cfg, section, starts, limit, hdr>>

SetLimit(n) ==
  /\ section \in 0..4
  /\ limit' = n /\ res' = "-" /\ amb' = FALSE
  /\ UNCHANGED <<cfg, buf, tab, plog, section, starts, shim, accepted, hdr>>
ClearLimit == SetLimit(NoLimit)

Finish ==
  /\ section \in 0..4
  /\ section' = 5 /\ res' = "-" /\ amb' = FALSE
  /\ UNCHANGED <<cfg, buf, tab, plog, starts, limit, shim, accepted, hdr>>

\* header_mut() on any builder: ID, flags, opcode and RCODE written
SetHeader(h) ==
  /\ section \in 0..4
  /\ Len(h) = 4 /\ \A i \in 1..4 : h[i] \in 0..255
  /\ buf' = BSetHdr(buf, h) /\ hdr' = h
  /\ res' = "-" /\ amb' = FALSE
  /\ UNCHANGED <<cfg, tab, plog, section, starts, limit, shim, accepted>>

\* MessageBuilder::start_answer(msg, rcode) / start_error(msg, rcode) /
\* request_axfr(apex) on a message builder (section 0, nothing pushed yet).
\*   start_answer: ID, opcode and RD copied from the request header rq, QR set,
\*     RCODE set; question(); every question of the request pushed; if one
\*     push fails the call fails and the builder is gone; answer().
\*   start_error: the same, but a failing push ends the pushing and sets RCODE
\*     SERVFAIL; the call itself cannot fail.
\*   request_axfr: a random ID; the one question pushed (failure as above).
\* st: [b, tab, plog, acc, ok, amb]; atlim: is a message of exactly `limit`
\* octets refused (the implementation does; the property leaves it open)
RECURSIVE PushQs(_, _, _, _)
PushQs(st, qs, i, atlim) ==
  IF i > Len(qs) \/ ~st.ok THEN st
  ELSE LET c == ComposeItem(cfg.comp, [b |-> st.b, tab |-> st.tab, plog |-> st.plog], qs[i])
           n == c.b.len
           cnt == BU16(st.b, 4)
           fits == n <= cfg.cap /\ (n < limit \/ (n = limit /\ ~atlim)) /\ cnt < 65535
       IN IF fits
          THEN PushQs([b |-> BPatch16(c.b, 4, cnt + 1), tab |-> c.tab, plog |-> c.plog,
                       acc |-> Append(st.acc, [sec |-> 1, item |-> qs[i]]), ok |-> TRUE,
                       amb |-> st.amb \/ n = limit], qs, i + 1, atlim)
          ELSE LET t == TruncSt(cfg.comp, c, st.b.len)
               IN [b |-> t.b, tab |-> t.tab, plog |-> t.plog, acc |-> st.acc, ok |-> FALSE,
                   amb |-> st.amb \/ (n = limit /\ n <= cfg.cap)]

\* the header a reply starts with: own AA, TC, RA, Z, AD, CD bits stay
ReplyHdr(own, rq, rc) ==
  << rq[1], rq[2],
     128 + ((rq[3] % 128) - (rq[3] % 8)) + ((own[3] % 8) - (own[3] % 2)) + (rq[3] % 2),
     (own[4] - (own[4] % 16)) + rc >>

StartReply(kind, rq, rc, qs) ==
  /\ section = 0 /\ kind \in {"answer", "error", "axfr"}
  /\ rc \in 0..15 /\ Len(rq) = 4
  /\ \A i \in 1..Len(qs) : qs[i].k = "q"
  /\ kind = "axfr" => Len(qs) = 1
  /\ \E atlim \in BOOLEAN :
     \E h0 \in {IF kind = "axfr" THEN <<rq[1], rq[2], BHdr(buf)[3], BHdr(buf)[4]>>
                 ELSE ReplyHdr(BHdr(buf), rq, rc)} :
     \E r \in {PushQs([b |-> BSetHdr(buf, h0), tab |-> tab, plog |-> plog, acc |-> accepted,
                        ok |-> TRUE, amb |-> FALSE], qs, 1, atlim)} :
       LET h1 == IF kind = "error" /\ ~r.ok THEN WithRcode(h0, 2) ELSE h0
           gone == kind # "error" /\ ~r.ok
       IN /\ (atlim = FALSE => r.amb)          \* the other reading only where it matters
          /\ amb' = r.amb
          /\ buf' = BSetHdr(r.b, h1) /\ hdr' = h1
          /\ tab' = r.tab /\ plog' = r.plog /\ shim' = r.b.len
          /\ accepted' = r.acc
          /\ section' = IF gone THEN 5 ELSE 2
          /\ starts' = IF gone THEN starts ELSE [starts EXCEPT ![2] = r.b.len]
          /\ res' = IF kind = "error" THEN "-" ELSE IF r.ok THEN "ok" ELSE "gone"
          /\ UNCHANGED <<cfg, limit>>

--------------------------------------------------------------------------
(* The property. *)

\* (a) the octets parse back to exactly the accepted items, in order, in
\* their sections, with the header counts equal to their numbers; without a
\* compressor the octets are the plain encodings
ParseBack == ParsesBackTo(buf, accepted, cfg.comp = "none")
CountsMatch == HdrCounts(buf) = <<SecCount(accepted, 1), SecCount(accepted, 2),
                                  SecCount(accepted, 3), SecCount(accepted, 4)>>
\* (b) a failed push leaves octets, counts and compressor table as they were
FailedPushIsNoop ==
  [][res' = "err" => /\ buf' = buf /\ tab' = tab /\ plog' = plog
                     /\ accepted' = accepted /\ shim' = shim]_vars
\* ... which includes the message header: it holds what was last set by a call
\* that succeeded
HeaderKept == BHdr(buf) = hdr
\* (c) every pointer the compressor emitted stands after its target, the
\* target is expressible in 14 bits, and the name read there is the one meant
PointersBackwardAndIntended ==
  \A e \in plog :
    /\ e.at < buf.len /\ e.to < e.at /\ e.to >= 12 /\ e.to < 16384
    /\ BU16(buf, e.at) = 49152 + e.to
    /\ LET r == RdName(buf, e.to) IN r.ok /\ NameEq(r.name, e.name)
\* (d) the stream length prefix is the message length
ShimMatches == shim = buf.len /\ (cfg.tgt \in {"stream", "sarray"} => buf.len <= 65535)
\* the table only holds positions that exist and that a pointer can express
TabOffsets ==
  CASE cfg.comp = "static" -> {tab[i] : i \in 1..Len(tab)}
    [] cfg.comp = "tree"   -> {e.off : e \in tab}
    [] cfg.comp = "hash"   -> {e.head : e \in tab}
    [] OTHER               -> {}
TableWithinBuffer == \A o \in TabOffsets : o >= 12 /\ o < buf.len /\ o < 16384
\* the same with the limit the (possibly deviating) compressors apply
TableWithinBufferDev == \A o \in TabOffsets : o >= 12 /\ o < buf.len /\ o < PtrLimit
\* what the lookups rely on
TableSound ==
  CASE cfg.comp = "static" -> /\ Len(tab) <= StaticCap
                              /\ \A i \in 1..Len(tab) : \A j \in i+1..Len(tab) : tab[i] < tab[j]
    [] cfg.comp = "tree"   -> \A e \in tab : LET r == RdName(buf, e.off) IN r.ok /\ r.name = e.key
    [] cfg.comp = "hash"   -> \A e \in tab : \A f \in tab :
                                 (e.tail = f.tail /\ LabelEq(ReadLabel(buf, e.head), ReadLabel(buf, f.head)))
                                    => e = f
    [] OTHER               -> TRUE
WithinCapacity == buf.len <= cfg.cap /\ buf.len >= 12
=============================================================================
