---------------------------- MODULE MC_OptBuild ----------------------------
(* EDNS options built through their public constructors and the OPT         *)
(* builders (C05: value -> compose -> parse = value, for values that are    *)
(* CONSTRUCTED, not obtained by parsing).                                   *)
(*                                                                          *)
(* The machine is the OPT record under construction: `pushed` is the        *)
(* sequence of constructor arguments handed over so far.  Push(a) hands     *)
(* over one more: the constructor refuses it (nothing is appended) or       *)
(* normalises it as documented (Rdata!OptNorm) and the option data of the   *)
(* normalised value is appended.  The first push ranges over the whole      *)
(* boundary domain OptArgs of every constructor's argument space, later     *)
(* pushes over one representative per option kind (CoreArgs), so that       *)
(* iteration and the first-of-a-kind getters are exercised on records with  *)
(* several options, also two of one kind.                                   *)
EXTENDS RdataDom, TLC, Json

CONSTANTS MaxPush,          \* options per record
          Wide,             \* TRUE: the wider prefix / scope / pattern grids
          Dev               \* named deviations of the implementation (DESIGN 2.6)

VARIABLES pushed
vars == <<pushed>>

--------------------------------------------------------------------------
(* the constructors' argument space at its boundaries *)

SrcLens(fam) == IF fam = 1 THEN {0, 1, 7, 8, 9, 31, 32, 33, 128, 255}
                ELSE {0, 1, 7, 8, 9, 63, 64, 65, 127, 128, 129, 255}
ScopeLens(fam) == IF Wide THEN SrcLens(fam)
                  ELSE {0, 1, AddrBits(fam) - 1, AddrBits(fam), AddrBits(fam) + 1, 255}
SingleBit(n, j) == [i \in 1..n |-> IF i = (j \div 8) + 1 THEN Pow2(7 - (j % 8)) ELSE 0]
\* all ones, alternating, nothing, a ramp, and a single bit at each boundary
\* of the prefix: the last bit kept, the first bit cleared, the last bit of
\* the octet the prefix ends in, the first bit of the next octet, the very
\* first and the very last bit of the address
AddrPatterns(fam, src) ==
  LET n == AddrOctets(fam)
      bits == AddrBits(fam)
      s == Min(src, bits)
      edge == {s - 1, s, 8 * PrefixOctets(s) - 1, 8 * PrefixOctets(s), 0, bits - 1}
              \cup (IF Wide THEN {s - 8, s + 7, 8 * (s \div 8)} ELSE {})
  IN {Rep(n, 255), Rep(n, 170), Rep(n, 85), Zeros(n), Ramp(n, 3)}
     \cup {SingleBit(n, j) : j \in {x \in edge : x >= 0 /\ x < bits}}
EcsOf(fam) == UNION {UNION {{[o |-> "ECS", fam |-> fam, src |-> src, scope |-> scope, addr |-> addr] :
                              addr \in AddrPatterns(fam, src)} : scope \in ScopeLens(fam)} : src \in SrcLens(fam)}

Utf8Texts == {<<>>, <<72, 105>>, <<99, 97, 102, 195, 169>>, <<226, 130, 172>>,
              <<240, 159, 146, 169>>, <<65, 0, 66>>, Rep(Big, 122)}
ServerLens == {0, 1, 7, 8, 9, 16, 31, 32, 33, 40}
U16s == {0, 1, 255, 256, 32767, 32768, 65535}
AlgLists == {<<>>, <<8>>, <<8, 13>>, <<13, 14, 15>>, <<0, 255, 1, 254>>, Ramp(Big + 1, 2), Ramp(Big, 2)}

OptArgs ==
  EcsOf(1) \cup EcsOf(2)
  \cup {[o |-> "NSID", data |-> d] : d \in {<<>>, <<0>>, <<72, 105>>, <<255, 0, 195>>, Ramp(Big, 7)}}
  \cup {[o |-> "PADDING", data |-> d] : d \in {<<>>, <<0>>, Zeros(2), Zeros(468), Zeros(Big), <<1, 255>>}}
  \cup {[o |-> k, algs |-> l] : k \in {"DAU", "DHU", "N3U"}, l \in AlgLists}
  \cup {[o |-> "EXPIRE", some |-> FALSE, secs |-> Zeros(4)]}
  \cup {[o |-> "EXPIRE", some |-> TRUE, secs |-> s] :
          s \in {Zeros(4), <<0, 0, 0, 1>>, <<127, 255, 255, 255>>, <<128, 0, 0, 0>>, Rep(4, 255), <<0, 9, 58, 128>>}}
  \cup {[o |-> "COOKIE", client |-> c, some |-> FALSE, server |-> <<>>] : c \in {Zeros(8), Rep(8, 255), Ramp(8, 1)}}
  \cup {[o |-> "COOKIE", client |-> Ramp(8, 1), some |-> TRUE, server |-> Ramp(n, 9)] : n \in ServerLens}
  \cup {[o |-> "COOKIE", client |-> Rep(8, 255), some |-> TRUE, server |-> Rep(16, x)] : x \in {0, 255}}
  \cup {[o |-> "KEEPALIVE", some |-> FALSE, t |-> 0, sub |-> 0]}
  \cup {[o |-> "KEEPALIVE", some |-> TRUE, t |-> t, sub |-> sub] :
          t \in U16s \cup {65536, 70000, 10000000}, sub \in {0, 1, 99}}
  \cup {[o |-> "CHAIN", name |-> n] : n \in Names5}
  \cup {[o |-> "KEYTAG", data |-> d] :
          d \in {<<>>, <<0>>, <<0, 0>>, <<255, 255>>, <<78, 32, 0>>, <<78, 32, 0, 1>>, Ramp(Big, 5), Ramp(Big + 1, 5)}}
  \cup {[o |-> "EDE", code |-> c, text |-> x] : c \in {0, 1, 18, 255, 256, 49152, 65535}, x \in Utf8Texts}

CoreArgs == {
  [o |-> "NSID", data |-> <<72, 105>>],
  [o |-> "DAU", algs |-> <<8, 13>>],
  [o |-> "DHU", algs |-> <<1, 2>>],
  [o |-> "N3U", algs |-> <<1, 2>>],
  [o |-> "ECS", fam |-> 1, src |-> 20, scope |-> 255, addr |-> Rep(4, 255)],
  [o |-> "ECS", fam |-> 2, src |-> 0, scope |-> 0, addr |-> Rep(16, 255)],
  [o |-> "EXPIRE", some |-> TRUE, secs |-> <<0, 9, 58, 128>>],
  [o |-> "COOKIE", client |-> Ramp(8, 4), some |-> TRUE, server |-> Ramp(16, 6)],
  [o |-> "COOKIE", client |-> Ramp(8, 4), some |-> TRUE, server |-> Ramp(7, 6)],   \* refused
  [o |-> "KEEPALIVE", some |-> TRUE, t |-> 300, sub |-> 50],
  [o |-> "PADDING", data |-> Zeros(5)],
  [o |-> "CHAIN", name |-> nAb],
  [o |-> "KEYTAG", data |-> <<78, 32, 0, 1>>],
  [o |-> "EDE", code |-> 18, text |-> <<72, 105>>]
}

ASSUME CoreArgs \subseteq {a \in CoreArgs : a.o \in DOMAIN OptCode}
ASSUME {a.o : a \in CoreArgs} = DOMAIN OptCode /\ {a.o : a \in OptArgs} = DOMAIN OptCode
ASSUME {OptKinds[i] : i \in 1..Len(OptKinds)} = DOMAIN OptCode /\ DOMAIN OptLayout = DOMAIN OptCode

--------------------------------------------------------------------------
Init == pushed = <<>>

Push(a) == /\ Len(pushed) < MaxPush
           /\ pushed' = Append(pushed, a)

\* records of two options: after every first option in the wide tier, after
\* every non-ECS first option and the plain ECS ones otherwise
PairFirst == IF Wide THEN OptArgs
             ELSE CoreArgs \cup {a \in OptArgs : a.o # "ECS" \/ (a.scope = 0 /\ a.addr = Rep(Len(a.addr), 255))}

PushFirst == \E a \in OptArgs : pushed = <<>> /\ Push(a)
PushMore  == \E a \in CoreArgs : pushed # <<>> /\ pushed[1] \in PairFirst /\ Push(a)
Next == PushFirst \/ PushMore

Spec == Init /\ [][Next]_vars

--------------------------------------------------------------------------
(* Laws *)

Last == pushed[Len(pushed)]
Fresh == pushed # <<>> /\ OptArgOk(Last)

\* the documented normalisation gives a well-formed value and is idempotent
LawNorm == Fresh => LET v == OptNorm(Last) IN OptValOk(v) /\ OptArgOk(v) /\ OptNorm(v) = v
\* ... and does nothing to arguments that are well-formed values already
LawNormId == (Fresh /\ Last.o \in {"ECS"} /\ OptValOk(Last)) => OptNorm(Last) = Last
\* value -> option data -> value
LawOptRoundTrip == Fresh => LET v == OptNorm(Last) IN OptValueOf(v.o, OptData(v)) = OptSome(v)
LawOptLen == Fresh => LET v == OptNorm(Last) IN Len(OptData(v)) = OptDataLen(v)
\* RFC 7871 6: ADDRESS is truncated to the octets SOURCE PREFIX-LENGTH needs; 7.1.2 and
\* 11.1: with source prefix length 0 no address bit is disclosed
LawEcsPrivacy == (Fresh /\ Last.o = "ECS") =>
  LET v == OptNorm(Last) IN
  /\ (v.src = 0 => v.addr = Zeros(AddrOctets(v.fam)) /\ Len(OptData(v)) = 4)
  /\ \A j \in 0..(AddrBits(v.fam) - 1) : BitAt(v.addr, j) = (IF j < v.src THEN BitAt(Last.addr, j) ELSE 0)
\* the record: OPT RDATA of the accepted options parses to exactly these options,
\* every one of them reads back as the normalised value, the getters see the first
LawRecord ==
  LET tlvs == OptTlvs(pushed)
      r == ParseRd("OPT", ComposeRd("OPT", <<tlvs>>))
  IN /\ ValidRd("OPT", <<tlvs>>)
     /\ r = [ok |-> TRUE, val |-> <<tlvs>>]
     /\ OptRead(tlvs) = [i \in 1..Len(tlvs) |-> OptView(OptVals(pushed)[i])]
     /\ Len(OptFirsts(OptRead(tlvs))) = Cardinality({OptVals(pushed)[i].o : i \in 1..Len(tlvs)})
\* a refused argument leaves no trace in the record
LawRefused == (pushed # <<>> /\ ~OptArgOk(Last)) =>
  OptTlvs(pushed) = OptTlvs(SubSeq(pushed, 1, Len(pushed) - 1))

(* What the implementation does today where it deviates:                    *)
(* D_understood_odd_len  the reader of DAU / DHU / N3U (Understood::         *)
(*    check_slice, used by from_octets / from_slice / parse) demands an even *)
(*    number of octets although RFC 6975 lists one-octet algorithm codes:    *)
(*    from_sec_algs / OptBuilder::dau with an odd number of algorithms write *)
(*    an option that does not read back                                      *)
LawImplReadsBack == \A i \in 1..Len(pushed) :
  ~("D_understood_odd_len" \in Dev /\ OddAlgs(pushed[i]))

--------------------------------------------------------------------------
(* S->I case generation: one case per reachable record *)

DevExp(q) == IF OptBuildOdd(q) = {} THEN <<>> ELSE [D_understood_odd_len |-> OptBuildExpOddDev(q)]

Emit == pushed # <<>> =>
  PrintT("CASE " \o ToJson([in |-> [mode |-> "optbuild", pushes |-> pushed],
                            exp |-> OptBuildExp(pushed), dev |-> DevExp(pushed)]))
=============================================================================
