CONSTANTS
  Dev = {}
SPECIFICATION TSpec
INVARIANT TraceInv
POSTCONDITION Accepted
CHECK_DEADLOCK FALSE
