CONSTANTS
  Dev = {}
  Mut = {}
  Names = {"a.example"}
  Types = {"A"}
  Cases = {0}
  AdVals = {FALSE}
  CdVals = {FALSE}
  DoVals = {FALSE, TRUE}
  RdVals = {TRUE}
  WithBypass = FALSE
  Classes <- AllClasses
  TtlVecs <- TV_Huge
  AdBits = {TRUE}
  Ticks <- TK_Default
  Configs <- CfgsDefault
  MaxSteps = 3
SPECIFICATION GSpec
INVARIANT Emit
INVARIANT GProp
CHECK_DEADLOCK FALSE
