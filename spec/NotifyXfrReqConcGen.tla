------------------------ MODULE NotifyXfrReqConcGen ------------------------
(* S->I generator for NotifyXfrReqConc.tla: every quiescent state of the    *)
(* gated model in which all started transfers are of one kind becomes a     *)
(* scenario for the real middleware: that many transfers against            *)
(* max_concurrency N with the walks / difference streams held; expected:    *)
(* the model's number of running walks (axfr) / responders (ixfr); then a   *)
(* set of clients drops, the gate opens: every remaining transfer completes *)
(* (C3) and a further one does (C2: all permits came back).                 *)
EXTENDS MC_NotifyXfrReqConc, Json

KindOf == IF \A t \in Started : kind[t] = "axfr" THEN "axfr"
          ELSE IF \A t \in Started : kind[t] = "ixfr" THEN "ixfr" ELSE "mixed"
\* the started transfers are 1 .. k (symmetry: any k of them)
Prefix == Started = 1 .. Cardinality(Started)

DropSets(k) == {{}} \cup {{1}} \cup (IF k >= 2 THEN {{k}, {1, k}} ELSE {}) \cup {1 .. k}
SetToSeq(S) == [j \in 1 .. Cardinality(S) |-> CHOOSE x \in S : Cardinality({y \in S : y < x}) = j - 1]

Emit ==
  (GateClosed /\ QuiescentNow /\ Started # {} /\ Prefix /\ KindOf # "mixed") =>
     LET k == Cardinality(Started)
         act == IF KindOf = "axfr" THEN Cardinality(Walking) ELSE Cardinality(Running)
     IN \A D \in DropSets(k) :
          PrintT("CASE " \o ToJson(
            [in |-> [kind |-> "conc", n |-> N, xfr |-> KindOf, k |-> k, drops |-> SetToSeq(D)],
             exp |-> [active |-> act, completed |-> k - Cardinality(D), fresh |-> TRUE],
             dev |-> [D_xfr_permits_not_held |-> [active |-> k, completed |-> k - Cardinality(D), fresh |-> TRUE]]]))
=============================================================================
