CONSTANTS
  Fam = "resolve"
  MaxRecs = 3
  Prios = {0}
  Weights = {0}
  Dev = {}
SPECIFICATION Spec
INVARIANT Emit
CONSTRAINT GenOnlyInit
CHECK_DEADLOCK FALSE
