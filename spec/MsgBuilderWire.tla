--------------------------- MODULE MsgBuilderWire ---------------------------
(* Wire-format vocabulary private to the message-builder specification    *)
(* (C02): a sparse message buffer with real offsets, an RFC 1035 4.1.4     *)
(* name reader (pointers strictly backward), and a reader for whole        *)
(* messages that is guided by the abstract items one expects to find.      *)
(* The full message-reader specification is spec/Wire.tla (C01); this       *)
(* module only has what MsgBuilder.tla needs.                               *)
EXTENDS Names, FiniteSets, TLC

--------------------------------------------------------------------------
(* Buffers.  A buffer is [len, s, gaps]: s holds the concrete octets in      *)
(* order, gaps the runs of filler octets [at |-> offset, n |-> count] in     *)
(* ascending order, len the total length.  Offsets are 0-based as in the     *)
(* implementation.  Long opaque record data (16 KiB .. 32 KiB of filler)     *)
(* only adds a gap, so offsets are real while states stay small.  The        *)
(* filler octet 128 (0x80) is an undefined label type, so a reader that is   *)
(* sent into filler stops at once.                                           *)

Fill == 128
EmptyBuf == [len |-> 0, s |-> <<>>, gaps |-> <<>>]

\* number of filler octets before offset o, or -1 if o lies inside a gap
RECURSIVE ShiftAt(_, _, _, _)
ShiftAt(g, i, o, acc) ==
  IF i > Len(g) THEN acc
  ELSE IF g[i].at > o THEN acc
  ELSE IF o < g[i].at + g[i].n THEN -1
  ELSE ShiftAt(g, i + 1, o, acc + g[i].n)

At(b, o) ==
  IF b.gaps = <<>> THEN b.s[o + 1]
  ELSE LET sh == ShiftAt(b.gaps, 1, o, 0) IN IF sh < 0 THEN Fill ELSE b.s[o - sh + 1]

\* the n >= 0 octets from offset o (all inside the buffer)
Slice(b, o, n) ==
  IF n = 0 THEN <<>>
  ELSE IF b.gaps = <<>> THEN SubSeq(b.s, o + 1, o + n)
  ELSE LET s1 == ShiftAt(b.gaps, 1, o, 0)
           s2 == ShiftAt(b.gaps, 1, o + n - 1, 0)
       IN IF s1 >= 0 /\ s1 = s2 THEN SubSeq(b.s, o - s1 + 1, o + n - s1)
          ELSE [i \in 1..n |-> At(b, o + i - 1)]

BAppend(b, x) == [b EXCEPT !.s = @ \o x, !.len = @ + Len(x)]
BFill(b, n) == IF n = 0 THEN b
               ELSE [b EXCEPT !.gaps = Append(@, [at |-> b.len, n |-> n]), !.len = @ + n]
BTrunc(b, n) ==
  IF n >= b.len THEN b
  ELSE LET kept == SelectSeq(b.gaps, LAMBDA g : g.at < n)
           cut == [i \in 1..Len(kept) |->
                     IF kept[i].at + kept[i].n > n THEN [at |-> kept[i].at, n |-> n - kept[i].at]
                     ELSE kept[i]]
           fill == SumSeq([i \in 1..Len(cut) |-> cut[i].n])
       IN [len |-> n, s |-> SubSeq(b.s, 1, n - fill), gaps |-> cut]
BPatch16(b, o, v) ==
  LET sh == ShiftAt(b.gaps, 1, o, 0) IN
  [b EXCEPT !.s = [@ EXCEPT ![o - sh + 1] = (v \div 256) % 256, ![o - sh + 2] = v % 256]]
BU16(b, o) == At(b, o) * 256 + At(b, o + 1)
\* a fully concrete buffer from a (1-based) octet sequence
BufOfSeq(x) == [len |-> Len(x), s |-> x, gaps |-> <<>>]
\* all n octets from offset p are filler octets
AllFill(b, p, n) ==
  \/ \E i \in 1..Len(b.gaps) : b.gaps[i].at <= p /\ p + n <= b.gaps[i].at + b.gaps[i].n
  \/ \A o \in p..(p + n - 1) : At(b, o) = Fill

SetMin(S) == CHOOSE x \in S : \A y \in S : x <= y

--------------------------------------------------------------------------
(* Reading a possibly compressed name at offset p (RFC 1035 4.1.4).  A      *)
(* pointer must point strictly before the octet where it stands, which     *)
(* makes the walk terminate; label types 01 and 10 are rejected; the        *)
(* expanded name may not exceed 255 octets.  Result: [ok, name, next,       *)
(* ptrs] where next is the offset after the name in the place where it      *)
(* started and ptrs the sequence of pointer hops [at, to].                  *)

BadName == [ok |-> FALSE, name |-> <<>>, next |-> -1, ptrs |-> <<>>]

RECURSIVE RdNameAt(_, _, _, _, _, _)
RdNameAt(b, p, acc, used, nxt, ptrs) ==
  IF p >= b.len THEN BadName
  ELSE LET h == At(b, p) IN
    IF h = 0 THEN
      IF used + 1 > 255 THEN BadName
      ELSE [ok |-> TRUE, name |-> acc,
            next |-> IF nxt = -1 THEN p + 1 ELSE nxt, ptrs |-> ptrs]
    ELSE IF h <= 63 THEN
      IF p + 1 + h > b.len THEN BadName
      ELSE IF used + 1 + h + 1 > 255 THEN BadName
      ELSE RdNameAt(b, p + 1 + h, Append(acc, Slice(b, p + 1, h)),
                    used + 1 + h, nxt, ptrs)
    ELSE IF h >= 192 THEN
      IF p + 1 >= b.len THEN BadName
      ELSE LET t == (h - 192) * 256 + At(b, p + 1) IN
        IF t >= p THEN BadName
        ELSE RdNameAt(b, t, acc, used, IF nxt = -1 THEN p + 2 ELSE nxt,
                      Append(ptrs, [at |-> p, to |-> t]))
    ELSE BadName
RdName(b, p) == RdNameAt(b, p, <<>>, 0, -1, <<>>)

--------------------------------------------------------------------------
(* Abstract items.                                                          *)
(*   question: [k |-> "q", name, qtype, qclass]                             *)
(*   record:   [k |-> "r", name, rtype, class, ttl (4 octets), rd]          *)
(* rd is the record data as a sequence of parts:                            *)
(*   [k |-> "o", o |-> octets]          literal octets                      *)
(*   [k |-> "f", n |-> count]           n filler octets                      *)
(*   [k |-> "n", n |-> name, c |-> b]   a domain name; c: the type allows    *)
(*                                      compressing it (RFC 3597 sect. 4)    *)
(* An OPT record is a record with the root owner, type 41, the UDP size as  *)
(* class and the extended flags as TTL.                                     *)

PartLen(p) ==   \* uncompressed length of a record-data part
  CASE p.k = "o" -> Len(p.o)
    [] p.k = "f" -> p.n
    [] p.k = "n" -> WireLenAbs(p.n)
PlainRdLen(rd) == SumSeq([i \in 1..Len(rd) |-> PartLen(rd[i])])
PlainLen(item) ==   \* uncompressed wire length of an item
  IF item.k = "q" THEN WireLenAbs(item.name) + 4
  ELSE WireLenAbs(item.name) + 10 + PlainRdLen(item.rd)

--------------------------------------------------------------------------
(* The guided reader: does the buffer hold, from offset p on, an encoding  *)
(* of the given item (names possibly compressed)?  Returns the offset       *)
(* after the item or -1.  With exact = TRUE names must be uncompressed and  *)
(* equal octet for octet, otherwise equal as domain names (ASCII case       *)
(* ignored: a pointer may lead to an occurrence written in another case).   *)

CheckName(b, p, n, exact) ==
  IF p < 0 THEN -1
  ELSE LET r == RdName(b, p) IN
    IF ~r.ok THEN -1
    ELSE IF exact THEN (IF r.name = n /\ r.ptrs = <<>> THEN r.next ELSE -1)
    ELSE (IF NameEq(r.name, n) THEN r.next ELSE -1)

CheckOcts(b, p, s) ==
  IF p < 0 \/ p + Len(s) > b.len THEN -1
  ELSE IF Slice(b, p, Len(s)) = s THEN p + Len(s) ELSE -1

CheckFill(b, p, n) ==
  IF p < 0 \/ p + n > b.len THEN -1
  ELSE IF AllFill(b, p, n) THEN p + n ELSE -1

RECURSIVE CheckParts(_, _, _, _, _)
CheckParts(b, p, rd, i, exact) ==
  IF p < 0 THEN -1
  ELSE IF i > Len(rd) THEN p
  ELSE LET q == CASE rd[i].k = "o" -> CheckOcts(b, p, rd[i].o)
                  [] rd[i].k = "f" -> CheckFill(b, p, rd[i].n)
                  [] rd[i].k = "n" -> CheckName(b, p, rd[i].n, exact)
       IN CheckParts(b, q, rd, i + 1, exact)

CheckItem(b, p, item, exact) ==
  LET a == CheckName(b, p, item.name, exact) IN
  IF a < 0 THEN -1
  ELSE IF item.k = "q" THEN
    CheckOcts(b, a, EncU16(item.qtype) \o EncU16(item.qclass))
  ELSE LET f == CheckOcts(b, a, EncU16(item.rtype) \o EncU16(item.class) \o item.ttl) IN
    IF f < 0 \/ f + 2 > b.len THEN -1
    ELSE LET e == CheckParts(b, f + 2, item.rd, 1, exact) IN
      IF e >= 0 /\ BU16(b, f) = e - (f + 2) THEN e ELSE -1

RECURSIVE CheckItems(_, _, _, _, _)
CheckItems(b, p, items, i, exact) ==
  IF p < 0 THEN -1
  ELSE IF i > Len(items) THEN p
  ELSE CheckItems(b, CheckItem(b, p, items[i].item, exact), items, i + 1, exact)

HdrCounts(b) == <<BU16(b, 4), BU16(b, 6), BU16(b, 8), BU16(b, 10)>>
SecCount(acc, s) == Cardinality({i \in 1..Len(acc) : acc[i].sec = s})
SectionsMonotone(acc) == \A i \in 1..Len(acc) : \A j \in i..Len(acc) : acc[i].sec <= acc[j].sec

\* acc: sequence of [sec |-> 1..4, item |-> item]
ParsesBackTo(b, acc, exact) ==
  /\ b.len >= 12
  /\ HdrCounts(b) = <<SecCount(acc, 1), SecCount(acc, 2), SecCount(acc, 3), SecCount(acc, 4)>>
  /\ SectionsMonotone(acc)
  /\ \A i \in 1..Len(acc) : (acc[i].sec = 1) <=> (acc[i].item.k = "q")
  /\ CheckItems(b, 12, acc, 1, exact) = b.len

\* every pointer hop met while reading the names of the items is backward,
\* not into the header, and what is read at its target is the corresponding
\* suffix of the name that was intended
NamePtrsOK(b, p, n) ==
  LET r == RdName(b, p) IN
  /\ r.ok
  /\ \A i \in 1..Len(r.ptrs) :
       LET h == r.ptrs[i]
           t == RdName(b, h.to)
       IN /\ h.to < h.at /\ h.to >= 12 /\ h.to < 16384
          /\ t.ok /\ Len(t.name) <= Len(n)
          /\ NameEq(t.name, Suffix(n, Len(t.name)))
=============================================================================
