CONSTANTS
  Dev = {}
  Alpha = {0, 32, 34, 40, 41, 46, 59, 64, 92, 48, 97, 65, 127, 255}
  MaxLab = 2
  Pairs = FALSE
  TextChars = {97, 46, 92, 48, 52, 57, 233}
  MaxText = 5
  WireOcts = {0, 1, 2, 63, 64, 97, 192}
  MaxWire = 5
SPECIFICATION NSpec
INVARIANT PresentScanLaw
INVARIANT ShapeLaw
INVARIANT ZScanLaw
INVARIANT ParsedLaw
INVARIANT SpellLaw
INVARIANT RevLaw
INVARIANT Emit
CHECK_DEADLOCK FALSE
