-------------------------- MODULE MC_ClientStream --------------------------
(* Exhaustive exploration of ClientStream.                                  *)
(*  Spec      : fine-grained: the environment (callers, peer, clock) may    *)
(*              act between any two steps of the transport task;            *)
(*  MacroSpec : an environment step followed by running the transport until *)
(*              nothing is runnable (what a single-threaded harness sees).  *)
(* The transport consumes its three inputs (request channel, reply channel, *)
(* clock) in the biased order; which consumption orders are possible is     *)
(* decided by the order of the environment steps, all of which MacroSpec    *)
(* explores.  Spec adds the states in which several inputs are pending at   *)
(* once (a request still in the channel when run returns, a reply queued    *)
(* when the timer becomes due).                                             *)
EXTENDS ClientStream

CONSTANTS MaxQ, MaxId, KaVals,
          XQs, XfrAll, QVars,      \* zone-transfer questions callers may ask (e.g. {501, 601})
          XfrIds    \* IDs for which the peer sends zone-transfer responses

Questions == 1..MaxQ
MCFrames == AlphabetOf(0..MaxId, Questions, KaVals, QVars) \cup XfrAlphabetOf(XfrIds, XQs, IF XfrAll THEN XfrRecsAll ELSE XfrRecsFew)

Callers == \/ \E r \in Reqs, q \in Questions : Submit(r, q)
           \/ \E r \in Reqs, q \in XQs : SubmitMulti(r, q)

Next == Callers \/ DropHandles \/ Internal \/ Tick \/ Peer

Spec == InitPred /\ [][Next]_vars

\* the transport task and the clock keep running
LiveSpec == Spec /\ WF_vars(Internal) /\ WF_vars(Tick)

MacroNext == \E o \in OpsOf(Cur, Questions \cup XQs, MCFrames) : Set(Apply(Cur, o))
MacroSpec == InitPred /\ [][MacroNext]_vars

\* every macro state is quiescent
MacroQuiescent == Quiescent(Cur)

\* `out` only records what was written; it never influences a transition
View == <<vec, count, curr, state, keepalive, idle, reqmsg, chan, wire, rq,
          rdead, wfail, wstall, peerOpen, handles, closed, asked, sent, done,
          nsub, nframes, sconf, tsel>>
=============================================================================
