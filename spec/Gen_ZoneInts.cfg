\* model checking and case generation in one run
CONSTANTS
  Dev = {}
SPECIFICATION Spec
INVARIANT ReaderAgrees
INVARIANT Emit
CHECK_DEADLOCK FALSE
