CONSTANTS
  Bnd4 = {0, 9, 10, 100, 255}
  Full = FALSE
SPECIFICATION Spec
INVARIANT Emit
CONSTRAINT GenOnlyInit
CHECK_DEADLOCK FALSE
