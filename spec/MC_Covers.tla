------------------------------ MODULE MC_Covers ------------------------------
(* C14, hook H3: the validator's private range helpers against the           *)
(* specification's covering predicate.                                       *)
(*  - nsec_in_range(target, owner, next)  vs  "target lies strictly inside   *)
(*    the cyclic interval (owner, next) of the zone's canonical order        *)
(*    (RFC 4034 6.1, RFC 4035 5.4)", over a small zone of names;             *)
(*  - nsec3_in_range(t, owner, next) vs the same over a cyclic hash space;   *)
(*  - nsec3_label_to_hash(label): Ok exactly for Base32hex labels.           *)
EXTENDS Names, FiniteSets, TLC, Json

CONSTANT Dev
VARIABLE done
Init == done = FALSE
Next == done' = TRUE
Spec == Init /\ [][Next]_done

\* the names of a small zone "z." (octets: a=97 b=98 z=122 *=42 A=65 !=33)
Apex == <<<<122>>>>
ZoneNames == { Apex, <<<<97>>>> \o Apex, <<<<98>>>> \o Apex, <<<<65, 98>>>> \o Apex,
               <<<<42>>>> \o Apex, <<<<97>>, <<98>>>> \o Apex, <<<<33>>, <<98>>>> \o Apex,
               <<<<122>>, <<97>>>> \o Apex, <<<<97, 97>>>> \o Apex }

Less(m, n) == CanonNameCmp(m, n) = -1
\* position of a name in the zone's canonical order, 0-based
Pos(n) == Cardinality({m \in ZoneNames : Less(m, n)})
K == Cardinality(ZoneNames)
\* t strictly inside the cyclic interval (o, n); o = n means the whole circle but o
Inside(o, n, t, k) == LET span == IF (n - o + k) % k = 0 THEN k ELSE (n - o + k) % k
                      IN ((t - o + k) % k) \in 1..(span - 1)

NsecCovers(owner, next, target) == Inside(Pos(owner), Pos(next), Pos(target), K)

H == 0..5
HashCovers(o, n, t) == Inside(o, n, t, 6)

\* labels as code points: 0-9 a-v (and A-V) are Base32hex
Hex32(c) == (c >= 48 /\ c <= 57) \/ (c >= 97 /\ c <= 118) \/ (c >= 65 /\ c <= 86)
Rep(c, n) == [i \in 1..n |-> c]
Labels == { Rep(48, 32), Rep(118, 32), Rep(86, 32), Rep(122, 32), Rep(119, 32), Rep(45, 32),
            Rep(97, 31) \o <<122>>, <<122>> \o Rep(97, 31), Rep(48, 8), Rep(122, 8),
            Rep(233, 32), Rep(61, 32) }
LabelOk(l) == \A i \in 1..Len(l) : Hex32(l[i])

Emit == done =>
  /\ \A o \in ZoneNames, n \in ZoneNames, t \in ZoneNames :
       \* the validator asks only about names that are not the owner itself
       t # o /\ (Less(o, n) \/ n = Apex) => PrintT("CASE " \o ToJson(
         [in |-> [kind |-> "nsec", owner |-> o, next |-> n, target |-> t],
          exp |-> [covers |-> NsecCovers(o, n, t)]]))
  /\ \A o \in H, n \in H, t \in H :
       PrintT("CASE " \o ToJson(
         [in |-> [kind |-> "nsec3", owner |-> o, next |-> n, target |-> t],
          exp |-> [covers |-> HashCovers(o, n, t)]]))
  /\ \A l \in Labels :
       PrintT("CASE " \o ToJson(
         [in |-> [kind |-> "label", label |-> l],
          exp |-> [ok |-> LabelOk(l)],
          dev |-> IF ~LabelOk(l) /\ \A i \in 1..Len(l) : l[i] < 128
                  THEN [D_nsec3_label_expect |-> [panic |-> TRUE]]
                  ELSE [none |-> [x |-> 0]]]))
=============================================================================
