CONSTANTS
  Dev = {}
  Deltas <- DeltasQuick
  BadLens = {0, 4, 12, 41}
SPECIFICATION Spec
INVARIANT SomeEarly
CHECK_DEADLOCK FALSE
