CONSTANTS
  Dev = {}
  TickMs = 250
  Confs = {}
  MaxDgrams = 0
  Faults = {}
  MReqs = {1, 2}
  MaxConn = 1000
SPECIFICATION TSpec
INVARIANT MAtMostOnce
INVARIANT MOnTime
INVARIANT MOwn
INVARIANT MNoDup
INVARIANT MConnsSound
INVARIANT MBackoffSound
POSTCONDITION Accepted
CHECK_DEADLOCK FALSE
