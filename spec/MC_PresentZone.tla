--------------------------- MODULE MC_PresentZone ---------------------------
(* Zones (C06): a zone file is written record by record and read by a       *)
(* configured reader.  State machine: the configuration of the reader       *)
(* (origin, default class, allow_invalid) and the writing mode are fixed at  *)
(* the start; WriteRecord appends one record (in "cat" mode with a display   *)
(* kind of its own, in "fmt" mode through the zone's one FormatWriter).      *)
(* After every step the whole file so far is read:                          *)
(*                                                                          *)
(*      ReadCfg(WZone(zone, kinds, mode), cfg) = ExpectedZone(zone, cfg)     *)
(*                                                                          *)
(* The records of the pool differ in class, TTL, owner and type, so every    *)
(* piece of context the reader carries from one entry to the next (last      *)
(* class, last TTL, last owner) is different from what the next record       *)
(* states.  Also the S->I case generator (one case per state).               *)
EXTENDS Presentation, TLC, Json

CONSTANT MaxRecs      \* records per zone

VARIABLES zone, kinds, mode, cfg, act
vars == <<zone, kinds, mode, cfg, act>>

Lex == <<101, 120>>          \* "ex"
La == <<97>>
Lb == <<98>>
Rec(o, c, ttl, rd) == [owner |-> o, class |-> c, ttl |-> ttl, rd |-> rd]
Txt(s) == [t |-> 16, strs |-> <<s>>]
\* no record of the pool is one a writer deviation applies to
Pool == {
  Rec(<<La, Lex>>, 1, 3600, Txt(<<120>>)),                              \* a.ex. 3600 IN TXT "x"
  Rec(<<Lex>>, 3, 0, Txt(<<>>)),                                        \* ex. 0 CH TXT ""
  Rec(<<Lb, Lex>>, 1, 5, [t |-> 2, name |-> <<Lex>>]),                  \* b.ex. 5 IN NS ex.
  Rec(<<La, Lex>>, 4, 7, [t |-> 15, pref |-> 10, name |-> <<La, Lex>>]), \* a.ex. 7 HS MX 10 a.ex.
  Rec(<<Lb>>, 3, 2147483647, [t |-> 65280, data |-> <<0, 165>>]),       \* b. ... CH TYPE65280 \# 2 00 a5
  Rec(<<Lex>>, 1, 3600, [t |-> 13, cpu |-> <<>>, os |-> <<97, 32, 98>>]) \* ex. 3600 IN HINFO "" "a b"
}
Origins == {<<>>, WireName(<<Lex>>)}
Cfgs == {ReaderCfg(o, c, a) : o \in Origins, c \in {-1, 1, 3}, a \in BOOLEAN}

Init == /\ zone = <<>> /\ kinds = <<>> /\ act = "init"
        /\ mode \in {"cat", "fmt"} /\ cfg \in Cfgs

\* one record more, written by a writer of its own
WriteRecordCat(r, k) ==
  /\ mode = "cat" /\ Len(zone) < MaxRecs
  /\ zone' = Append(zone, r) /\ kinds' = Append(kinds, k) /\ act' = "WriteRecordCat"
  /\ UNCHANGED <<mode, cfg>>
\* the first record of a zone written through one FormatWriter: fixes the kind
BeginZoneFmt(r, k) ==
  /\ mode = "fmt" /\ zone = <<>> /\ MaxRecs >= 1
  /\ zone' = <<r>> /\ kinds' = <<k>> /\ act' = "BeginZoneFmt"
  /\ UNCHANGED <<mode, cfg>>
\* a further record through the same FormatWriter (after FormatWriter::newline)
WriteRecordFmt(r) ==
  /\ mode = "fmt" /\ zone # <<>> /\ Len(zone) < MaxRecs
  /\ zone' = Append(zone, r) /\ kinds' = Append(kinds, kinds[1]) /\ act' = "WriteRecordFmt"
  /\ UNCHANGED <<mode, cfg>>

Next == \/ \E r \in Pool, k \in Kinds : WriteRecordCat(r, k)
        \/ \E r \in Pool, k \in ZoneKinds : BeginZoneFmt(r, k)
        \/ \E r \in Pool : WriteRecordFmt(r)
Spec == Init /\ [][Next]_vars

\* the property: whatever has been written so far reads back (writer deviations Dev)
ZoneReadEqualsWritten == ZoneRoundTrip(zone, kinds, mode, cfg, Dev \cap WriterDevs)
\* the declarative expectation agrees with the record-by-record statement
\* for the default reader: a single record always comes back
SingleRecordComesBack ==
  (Len(zone) = 1 /\ (cfg.allow \/ cfg.dclass \in {-1, zone[1].class}))
     => ExpectedZone(zone, cfg) = Expected(zone[1])

--------------------------------------------------------------------------
\* routes (aliases): how the reader is set up over the text, how the records are built
CtorRoutes == <<"from_slice", "from_str", "load", "bufmut", "extend", "default_reserve">>
MkRoutes == <<"new", "tuple_u32", "tuple_ttl", "in_default", "header", "parse">>
MkdRoutes == <<"wire", "typed", "builder">>
RECURSIVE SumFrom(_, _)
SumFrom(s, i) == IF i > Len(s) THEN 0 ELSE (s[i] + (31 * SumFrom(s, i + 1))) % 100003
Hash(text) == SumFrom(text, 1) + (IF cfg.allow THEN 1 ELSE 0) + cfg.dclass + 1 + Len(cfg.origin)

\* some record's class is not the one the reader remembers (default class / first record)
MixedClasses == zone # <<>> /\ FirstOtherClass(zone, IF cfg.dclass # -1 THEN cfg.dclass ELSE zone[1].class, 1) # 0

Emit ==
  LET ideal == WZone(zone, kinds, mode, {})
      code == WZone(zone, kinds, mode, WriterDevs)
      h == Hash(ideal)
      expd == ExpectedZone(zone, cfg)
      inp == [zone |-> [recs |-> [i \in 1..Len(zone) |-> AsEntry(zone[i])], kinds |-> kinds, mode |-> mode,
                        cfg |-> cfg, ctor |-> CtorRoutes[1 + (h % 6)]],
              route |-> <<MkRoutes[1 + ((h \div 6) % 6)], MkdRoutes[1 + ((h \div 36) % 3)], "zone">>,
              stext |-> ideal, act |-> act,
              cell |-> (IF cfg.allow THEN "allow" ELSE "strict") \o (IF MixedClasses THEN "-mixed" ELSE "-same")]
  IN IF zone = <<>> \/ code # ideal THEN TRUE
     ELSE PrintT("CASE " \o ToJson([in |-> inp, exp |-> [lib |-> expd, spec |-> expd]]))
=============================================================================
