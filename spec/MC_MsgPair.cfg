CONSTANTS
  Dev = {}
  Big = FALSE
SPECIFICATION Spec
INVARIANT PairLaws
CHECK_DEADLOCK FALSE
