CONSTANTS
  Dev = {}
  Big = FALSE
SPECIFICATION Spec
INVARIANT PairLaws
INVARIANT Emit
CHECK_DEADLOCK FALSE
