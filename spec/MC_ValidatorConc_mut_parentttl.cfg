CONSTANTS
  Procs = {1, 2}
  Qs = {"zone"}
  Runs = 1
  MaxNow = 4
  Budget = 1
  AdvKinds = {"Short"}
  Dev = {}
  Mut = {"M_parent_ttl_ignored"}
  Atomic = FALSE
SPECIFICATION Spec
INVARIANT NodeExpiryCapped
CHECK_DEADLOCK TRUE
