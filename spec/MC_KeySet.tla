----------------------------- MODULE MC_KeySet -----------------------------
(* Model-checking wrapper for KeySet.tla: every public call with every     *)
(* argument over a small key universe (the "API model": X01.2, X01.3 and   *)
(* the structural invariants), and the per-transition S->I generator.      *)
EXTENDS KeySet, KeySetNames, Json, IOUtils

CONSTANTS KeySeq,      \* the key universe as a sequence (fixes list order); names
                       \* start with k (KSK), z (ZSK), c (CSK), i (Include)
          MaxList,     \* longest old / new list of start_roll (0..2)
          Ops,         \* names of the key-management calls that are enabled
          SetKeys,     \* keys to which set_* calls are applied
          Rts,         \* roll types that are started
          AltTag,      \* keys that are (also) added with the tag of another key
          OddLists,    \* TRUE: also reversed and duplicate lists
          WellTyped,   \* TRUE: start_roll only with existing keys of an accepted type
          NoopRolls    \* TRUE: also start_roll with two empty lists

MCKeys == {KeySeq[i] : i \in 1..Len(KeySeq)}

TagsFor(k) == IF k \in AltTag THEN {TagOf(k), TagOf(KeySeq[1])} ELSE {TagOf(k)}

N == Len(KeySeq)
\* lists over the positions P of KeySeq: ascending, or any pair when OddLists
ListsOver(P) ==
  {<<>>}
  \cup (IF MaxList >= 1 THEN {<<KeySeq[i]>> : i \in P} ELSE {})
  \cup (IF MaxList >= 2
        THEN {<<KeySeq[p[1]], KeySeq[p[2]]>> :
                p \in {q \in P \X P : OddLists \/ q[1] < q[2]}}
        ELSE {})
\* start_roll arguments: with WellTyped only keys that exist and have a type
\* the roll accepts (the other calls fail in the first lines of update_*)
StartLists(rt) ==
  IF WellTyped
  THEN ListsOver({i \in 1..N : KeySeq[i] \in DOMAIN keys /\ TypeOk(rt, MCKType(KeySeq[i]))})
  ELSE ListsOver(1..N)

Ttls == 0..MaxTTL

--------------------------------------------------------------------------
(* One action per public call *)

AddKeyA      == \E k \in MCKeys, av \in BOOLEAN :
                  /\ "add_unavailable" \in Ops \/ av
                  /\ \E tg \in TagsFor(k) : Do([avail |-> av, k |-> k, op |-> "add", tag |-> tg])
DeleteKeyA   == \E k \in MCKeys : Do([k |-> k, op |-> "delete_key"])
SetPresentA  == "set_present" \in Ops /\ \E k \in SetKeys, v \in BOOLEAN :
                  Do([k |-> k, op |-> "set_present", v |-> v])
SetSignerA   == "set_signer" \in Ops /\ \E k \in SetKeys, v \in BOOLEAN :
                  Do([k |-> k, op |-> "set_signer", v |-> v])
SetAtParentA == "set_at_parent" \in Ops /\ \E k \in SetKeys, v \in BOOLEAN :
                  Do([k |-> k, op |-> "set_at_parent", v |-> v])
SetStaleA    == "set_stale" \in Ops /\ \E k \in SetKeys : Do([k |-> k, op |-> "set_stale"])
SetDecoupledA == "set_decoupled" \in Ops /\ \E k \in SetKeys, v \in BOOLEAN :
                  Do([k |-> k, op |-> "set_decoupled", v |-> v])
SetVisibleA  == "set_visible" \in Ops /\ \E k \in SetKeys, a \in Ttls :
                  Do([age |-> a, k |-> k, op |-> "set_visible"])
SetDsVisibleA == "set_ds_visible" \in Ops /\ \E k \in SetKeys, a \in Ttls :
                  Do([age |-> a, k |-> k, op |-> "set_ds_visible"])
SetRrsigVisibleA == "set_rrsig_visible" \in Ops /\ \E k \in SetKeys, a \in Ttls :
                  Do([age |-> a, k |-> k, op |-> "set_rrsig_visible"])
StartRollA   == \E rt \in Rts : \E old \in StartLists(rt), new \in StartLists(rt) :
                  (NoopRolls \/ old # <<>> \/ new # <<>>) /\
                  Do([new |-> new, old |-> old, op |-> "start_roll", rt |-> rt])
Propagation1CompleteA == \E rt \in Rts, ttl \in Ttls :
                  Do([op |-> "propagation1_complete", rt |-> rt, ttl |-> ttl])
CacheExpired1A == \E rt \in Rts : Do([op |-> "cache_expired1", rt |-> rt])
Propagation2CompleteA == \E rt \in Rts, ttl \in Ttls :
                  Do([op |-> "propagation2_complete", rt |-> rt, ttl |-> ttl])
CacheExpired2A == \E rt \in Rts : Do([op |-> "cache_expired2", rt |-> rt])
RollDoneA    == \E rt \in Rts : Do([op |-> "roll_done", rt |-> rt])
TickA        == Do([op |-> "tick"])

Next == \/ AddKeyA \/ DeleteKeyA \/ SetPresentA \/ SetSignerA \/ SetAtParentA
        \/ SetStaleA \/ SetDecoupledA \/ SetVisibleA \/ SetDsVisibleA \/ SetRrsigVisibleA
        \/ StartRollA \/ Propagation1CompleteA \/ CacheExpired1A
        \/ Propagation2CompleteA \/ CacheExpired2A \/ RollDoneA \/ TickA

Spec == KSInit /\ [][Next]_ksvars

\* states are identified up to the arguments of the last call
MCView == <<keys, rolls, last.op.op,
            IF "rt" \in DOMAIN last.op THEN last.op.rt ELSE "", last.res>>
GenView == <<keys, rolls>>

--------------------------------------------------------------------------
(* Reachability witnesses (vacuity guards; expected to be violated) *)
NeverAllDone == ~(\E rt \in RollTypes : rolls[rt].st = "Done")
NeverTwoRolls == Cardinality(Active(rolls)) < 2
NeverWait == last.res # "Wait"

--------------------------------------------------------------------------
(* Vacuity guard (-coverage 1 fails on this module with a spurious         *)
(* evaluation error): the first time a worker takes a (call, roll type,    *)
(* result) combination it announces it; the check requires the list.       *)
OpNames == <<"add", "delete_key", "set_present", "set_signer", "set_at_parent", "set_stale",
             "set_decoupled", "set_visible", "set_ds_visible", "set_rrsig_visible",
             "start_roll", "propagation1_complete", "cache_expired1",
             "propagation2_complete", "cache_expired2", "roll_done", "tick", "new">>
ResNames == <<"ok", "KeyExists", "KeyNotFound", "KeyNotOld", "DuplicateKeyTag", "WrongKeyType",
              "WrongKeyState", "NoSuitableKeyPresent", "WrongStateForRollOperation",
              "ConflictingRollInProgress", "AlgorithmSetsMismatch", "Wait", "panic", "err">>
RtNames == <<"", "KskRoll", "KskDoubleDsRoll", "ZskRoll", "ZskDoubleSignatureRoll",
             "CskRoll", "AlgorithmRoll">>
IxOf(seq, x) == CHOOSE i \in 1..Len(seq) : seq[i] = x
CoverIx(l) == 1000 + IxOf(OpNames, l.op.op) * 200
                   + IxOf(RtNames, IF "rt" \in DOMAIN l.op THEN l.op.rt ELSE "") * 20
                   + IxOf(ResNames, l.res)
ASSUME \A i \in 1000..5000 : TLCSet(i, 0)
CoverT ==
  LET i == CoverIx(last')
  IN IF TLCGet(i) = 0
     THEN TLCSet(i, 1) /\ PrintT("COVER " \o ToJson([op |-> last'.op.op,
                                   rt |-> IF "rt" \in DOMAIN last'.op THEN last'.op.rt ELSE "",
                                   res |-> last'.res]))
     ELSE TRUE

--------------------------------------------------------------------------
(* S->I: one case per explored transition (state, call): the pre-state to  *)
(* inject, the call, and for every set of deviations the allowed outcomes. *)

\* the generators explore the behaviour of the code as it is today: the
\* deviations listed as open (environment variables D_<name> = "1")
OpenDevs == (IF IOEnv.D_ksk_stale_filter = "1" THEN {"D_ksk_stale_filter"} ELSE {})
       \cup (IF IOEnv.D_double_ds_visible = "1" THEN {"D_double_ds_visible"} ELSE {})
       \cup (IF IOEnv.D_expect_panic = "1" THEN {"D_expect_panic"} ELSE {})

DevSets == SUBSET AllDevs
DevSeq(d) == LET R[s \in SUBSET d] == IF s = {} THEN <<>>
                                      ELSE LET x == CHOOSE x \in s : TRUE IN <<x>> \o R[s \ {x}]
             IN R[d]

Proj(ks, rs) == [keys |-> ks, rolls |-> rs, acts |-> AllActions(rs)]
\* a refused call leaves the pre-state: "pre" instead of repeating it
OutJson(o) == IF o.res = "ok" THEN [res |-> o.res, ret |-> o.acts, post |-> Proj(o.keys, o.rolls)]
              ELSE [res |-> o.res, ret |-> o.acts, post |-> "pre"]
SetSeq(S) == LET R[s \in SUBSET S] == IF s = {} THEN <<>>
                                      ELSE LET x == CHOOSE x \in s : TRUE IN <<x>> \o R[s \ {x}]
             IN R[S]

CaseOf(ks, rs, o) ==
  LET ideal == Outcomes({}, ks, rs, o)
      devd  == IF o.op \in {"cache_expired1", "cache_expired2"}
               THEN {d \in DevSets \ {{}} : Outcomes(d, ks, rs, o) # ideal}
               ELSE {}
  IN [in |-> [maxttl |-> MaxTTL,
              pre |-> [keys |-> ks, rolls |-> rs],
              op |-> o,
              alts |-> SetSeq({OutJson(x) : x \in ideal}),
              devalts |-> SetSeq({[devs |-> DevSeq(d),
                                   alts |-> SetSeq({OutJson(x) : x \in Outcomes(d, ks, rs, o)})] : d \in devd})],
      exp |-> [match |-> "ideal"],
      dev |-> [d \in AllDevs |-> [match |-> d]]]

\* evaluated on every explored transition (ACTION_CONSTRAINT); the first of
\* several outcomes of the same call emits the case
EmitT ==
  LET outs == Outcomes(Dev, keys, rolls, last'.op)
      first == CHOOSE x \in outs : TRUE
  IN (keys' = first.keys /\ rolls' = first.rolls /\ last'.res = first.res)
       => PrintT("CASE " \o ToJson(CaseOf(keys, rolls, last'.op)))

--------------------------------------------------------------------------
(* Random long behaviours (-simulate): one random successor per step, the  *)
(* choice biased towards calls that make rolls progress.                   *)

\* TLC evaluates constant-level expressions once: make the draw state-level
Rnd(S) == RandomElement(IF rolls = rolls THEN S ELSE {})
Pos(P(_)) == {i \in 1..N : P(KeySeq[i])}
NextStepOp(rt) == CASE rolls[rt].st = "P1"  -> "propagation1_complete"
                    [] rolls[rt].st = "CE1" -> "cache_expired1"
                    [] rolls[rt].st = "P2"  -> "propagation2_complete"
                    [] rolls[rt].st = "CE2" -> "cache_expired2"
                    [] OTHER                -> "roll_done"
StepOps == {"propagation1_complete", "cache_expired1", "propagation2_complete",
            "cache_expired2", "roll_done"}
SetOps == Ops \cap {"set_present", "set_signer", "set_at_parent", "set_stale", "set_decoupled",
                    "set_visible", "set_ds_visible", "set_rrsig_visible"}

SimStart ==
  \E rt \in {Rnd(Rts)} : \E smart \in {Rnd(1..4)} :
    LET InUse(k) == k \in DOMAIN keys /\ TypeOk(rt, MCKType(k)) /\ ~keys[k].a.old /\ keys[k].a.present
        Unused(k) == k \in DOMAIN keys /\ TypeOk(rt, MCKType(k)) /\ IsFresh(k, keys[k])
        po == IF smart = 1 THEN 1..N ELSE Pos(InUse)
        pn == IF smart = 1 THEN 1..N ELSE Pos(Unused)
        Like(new) == {o \in ListsOver(po) : Len(o) = Len(new) /\
                        \A i \in 1..Len(o) : MCKType(o[i]) = MCKType(new[i]) /\ MCKAlg(o[i]) = MCKAlg(new[i])}
    IN \E new \in {Rnd(ListsOver(pn))} :
         \E old \in {Rnd(IF smart >= 3 /\ Like(new) # {} THEN Like(new) ELSE ListsOver(po))} :
           Do([new |-> new, old |-> old, op |-> "start_roll", rt |-> rt])

SimStep ==
  \E ttl \in {Rnd(Ttls)}, coin \in {Rnd(1..10)} :
    IF Active(rolls) # {} /\ coin <= 9
    THEN \E rt \in {Rnd(Active(rolls))} :
           Do([op |-> NextStepOp(rt), rt |-> rt, ttl |-> ttl])
    ELSE IF Active(rolls) = {} /\ coin <= 9 THEN SimStart
    ELSE \E rt \in {Rnd(Rts)}, o \in {Rnd(StepOps)} :
           Do([op |-> o, rt |-> rt, ttl |-> ttl])

SimSet ==
  IF SetOps = {} \/ SetKeys = {} THEN TickA
  ELSE \E o \in {Rnd(SetOps)}, k \in {Rnd(SetKeys)},
          v \in {Rnd(BOOLEAN)}, a \in {Rnd(Ttls)} :
         Do([age |-> a, k |-> k, op |-> o, v |-> v])

SimNext ==
  \E c \in {Rnd(1..100)} :
    IF c <= 12 THEN \E k \in {Rnd(MCKeys)}, av \in {Rnd(1..10)} :
                      \E tg \in {Rnd(TagsFor(k))} :
                        Do([avail |-> (av # 1), k |-> k, op |-> "add", tag |-> tg])
    ELSE IF c <= 17 THEN \E k \in {Rnd(MCKeys)} : Do([k |-> k, op |-> "delete_key"])
    ELSE IF c <= 32 THEN SimStart
    ELSE IF c <= 72 THEN SimStep
    ELSE IF c <= 90 THEN TickA
    ELSE SimSet

SimSpec == KSInit /\ [][SimNext]_ksvars

\* in a simulated behaviour every step is a case (the executor follows the
\* behaviour on one live object)
EmitS == PrintT("CASE " \o ToJson(CaseOf(keys, rolls, last'.op)))
=============================================================================
