------------------------------- MODULE KeySet -------------------------------
(* X01 -- the DNSSEC key-set roll-over state machine                       *)
(*        (src/dnssec/sign/keys/keyset.rs: KeySet, Key, KeyState,          *)
(*         RollType, RollState, Action).                                   *)
(*                                                                         *)
(* PROPERTIES (stated by this extension; RFC 6781 s.4.1, RFC 7583 s.3):    *)
(*                                                                         *)
(*  X01.1 Validatable.  For every history of calls made by an operator     *)
(*        who performs the returned Actions and reports propagation and    *)
(*        TTLs truthfully, and for every admissible resolver cache state   *)
(*        (any not yet expired version of the DNSKEY, DS and RRSIG sets),  *)
(*        there is a chain DS -> DNSKEY (signed by that key) and           *)
(*        RRSIG -> DNSKEY: a key, signature or DS is never withdrawn       *)
(*        while a cached RRset may still need it.   (KeySetEnv.tla)        *)
(*  X01.2 Ordered and refused.  The steps of a roll only happen in the     *)
(*        order start, propagation1, cache_expired1, propagation2,         *)
(*        cache_expired2, roll_done; a call whose precondition does not    *)
(*        hold returns an error and leaves the key set unchanged -- it     *)
(*        never panics and never changes state.                            *)
(*  X01.3 Exclusive.  At most one roll of each conflict class is in        *)
(*        progress: {KskRoll, KskDoubleDsRoll, CskRoll, AlgorithmRoll}     *)
(*        and {ZskRoll, ZskDoubleSignatureRoll, CskRoll, AlgorithmRoll}.   *)
(*  X01.4 Completion.  Every started roll can be completed (liveness under *)
(*        fairness of "time passes" and of the operator's steps); the      *)
(*        Action lists name every RRset whose content the step changed;    *)
(*        when no roll is in progress every old key is stale (deletable)   *)
(*        and the zone still has a non-old signer in each role.            *)
(*                                                                         *)
(* The module is a transcription of keyset.rs: one action per public call; *)
(* `Outcomes` is the transition function (a set because HashMap iteration  *)
(* order decides between a panic and Error::Wait).  Time is abstracted to  *)
(* ages: every timestamp that a guard reads is kept as "ticks since it was *)
(* set", saturating at MaxTTL (guards only compare with ttl <= MaxTTL).    *)
(*                                                                         *)
(* Deviations (the code as it is today = all of them switched on):         *)
(*  D_ksk_stale_filter   KskRoll cache_expired1/2 examine every non-stale  *)
(*                       KSK instead of the keys stamped by the preceding  *)
(*                       propagation step.                                 *)
(*  D_double_ds_visible  KskDoubleDsRoll cache_expired2 measures the       *)
(*                       DNSKEY TTL from ds_visible instead of visible.    *)
(*  D_expect_panic       a missing timestamp makes cache_expiredN panic    *)
(*                       (`expect`) instead of returning an error.         *)
EXTENDS Naturals, Integers, Sequences, FiniteSets, TLC

CONSTANTS Keys,        \* universe of key references (pubref strings)
          KType(_),    \* key reference -> "ksk" | "zsk" | "csk" | "inc"
          KAlg(_),     \* key reference -> algorithm number
          MaxTTL,      \* largest TTL / age distinguished
          Dev          \* deviations switched on (subset of AllDevs)

VARIABLES keys,        \* [subset of Keys -> key record]
          rolls,       \* [RollTypes -> [st, ttl]]
          last         \* the last call: [op, res, acts]

ksvars == <<keys, rolls, last>>

AllDevs == {"D_ksk_stale_filter", "D_double_ds_visible", "D_expect_panic"}

RollTypes == {"KskRoll", "KskDoubleDsRoll", "ZskRoll",
              "ZskDoubleSignatureRoll", "CskRoll", "AlgorithmRoll"}
KskRolls == {"KskRoll", "KskDoubleDsRoll"}
ZskRolls == {"ZskRoll", "ZskDoubleSignatureRoll"}
AllRolls == {"CskRoll", "AlgorithmRoll"}

Idle == [st |-> "Idle", ttl |-> 0]
None == -1

--------------------------------------------------------------------------
(* Key state *)

\* (record fields are written in alphabetical order throughout: TLC sorts the
\* fields of a record in place the first time it is compared, which is not
\* safe for values shared between workers unless it is a no-op)
St0   == [at_parent |-> FALSE, avail |-> FALSE, old |-> FALSE,
          present |-> FALSE, signer |-> FALSE]
Fresh == [St0 EXCEPT !.avail = TRUE]
Stale(s) == s.old /\ ~s.signer /\ ~s.present /\ ~s.at_parent

\* `a` is the state of a KSK/ZSK/Include key and the KSK-role state of a
\* CSK; `b` is the ZSK-role state of a CSK (St0 for the other types).
NewKey(k, avail, tag) ==
  [a |-> [St0 EXCEPT !.avail = avail],
   b |-> IF KType(k) = "csk" THEN [St0 EXCEPT !.avail = avail] ELSE St0,
   dec |-> FALSE,
   dsv |-> None,                \* ages of visible (vis), ds_visible, rrsig_visible
   pubd |-> FALSE,              \* published / withdrawn (wd) is Some
   rsv |-> None, tag |-> tag, vis |-> None, wd |-> FALSE]

\* the zone-signing role state
ZS(k, key) == IF KType(k) = "csk" THEN key.b ELSE key.a

--------------------------------------------------------------------------
(* What the caller has to publish (the helper functions of the unit test) *)

DnskeySet(ks)  == {k \in DOMAIN ks : ks[k].a.present \/ ks[k].b.present}
DnskeySigs(ks) == {k \in DOMAIN ks : KType(k) \in {"ksk", "csk"} /\ ks[k].a.signer}
ZoneSigs(ks)   == {k \in DOMAIN ks : KType(k) \in {"zsk", "csk"} /\ ZS(k, ks[k]).signer}
DsSet(ks)      == {k \in DOMAIN ks : ks[k].a.at_parent}

--------------------------------------------------------------------------
(* Action lists (roll_actions_fn) *)

ActionsOf(rt, st) ==
  CASE rt = "KskRoll" ->
         (CASE st = "P1"   -> <<"UpdateDnskeyRrset", "ReportDnskeyPropagated">>
            [] st = "P2"   -> <<"CreateCdsRrset", "UpdateDsRrset", "ReportDsPropagated">>
            [] st = "Done" -> <<"RemoveCdsRrset", "UpdateDnskeyRrset", "WaitDnskeyPropagated">>
            [] OTHER -> <<>>)
    [] rt = "KskDoubleDsRoll" ->
         (CASE st = "P1"   -> <<"CreateCdsRrset", "UpdateDsRrset", "ReportDsPropagated">>
            [] st = "P2"   -> <<"RemoveCdsRrset", "UpdateDnskeyRrset", "ReportDnskeyPropagated">>
            [] st = "Done" -> <<"CreateCdsRrset", "UpdateDsRrset", "WaitDsPropagated">>
            [] OTHER -> <<>>)
    [] rt = "ZskRoll" ->
         (CASE st = "P1"   -> <<"UpdateDnskeyRrset", "ReportDnskeyPropagated">>
            [] st = "P2"   -> <<"UpdateRrsig", "ReportRrsigPropagated">>
            [] st = "Done" -> <<"UpdateDnskeyRrset", "WaitDnskeyPropagated">>
            [] OTHER -> <<>>)
    [] rt = "ZskDoubleSignatureRoll" ->
         (CASE st \in {"P1", "P2"} -> <<"UpdateDnskeyRrset", "UpdateRrsig",
                                        "ReportDnskeyPropagated", "ReportRrsigPropagated">>
            [] OTHER -> <<>>)
    [] rt = "CskRoll" ->
         (CASE st = "P1"   -> <<"UpdateDnskeyRrset", "ReportDnskeyPropagated">>
            [] st = "P2"   -> <<"CreateCdsRrset", "UpdateDsRrset", "UpdateRrsig",
                                "ReportDsPropagated", "ReportRrsigPropagated">>
            [] st = "Done" -> <<"RemoveCdsRrset", "UpdateDnskeyRrset", "WaitDnskeyPropagated">>
            [] OTHER -> <<>>)
    [] rt = "AlgorithmRoll" ->
         (CASE st = "P1"   -> <<"UpdateDnskeyRrset", "UpdateRrsig",
                                "ReportDnskeyPropagated", "ReportRrsigPropagated">>
            [] st = "P2"   -> <<"CreateCdsRrset", "UpdateDsRrset", "ReportDsPropagated">>
            [] st = "Done" -> <<"RemoveCdsRrset", "UpdateDnskeyRrset", "UpdateRrsig",
                                "WaitDnskeyPropagated", "WaitRrsigPropagated">>
            [] OTHER -> <<>>)

\* KeySet::actions for every roll type (part of the projection)
AllActions(rs) == [rt \in RollTypes |-> ActionsOf(rt, rs[rt].st)]

--------------------------------------------------------------------------
(* start_roll: the update_* functions *)

TypeOk(rt, t) ==
  CASE rt \in KskRolls -> t = "ksk"
    [] rt \in ZskRolls -> t = "zsk"
    [] OTHER           -> t \in {"ksk", "zsk", "csk"}

MarkOld(k, key) ==
  IF KType(k) = "csk" THEN [key EXCEPT !.a.old = TRUE, !.b.old = TRUE]
  ELSE [key EXCEPT !.a.old = TRUE]

IsFresh(k, key) == key.a = Fresh /\ (KType(k) = "csk" => key.b = Fresh)

Incoming(rt, k, key) ==
  LET t == KType(k) IN
  CASE rt = "KskRoll" ->
         [key EXCEPT !.a.present = TRUE, !.a.signer = TRUE, !.pubd = TRUE]
    [] rt = "KskDoubleDsRoll" ->
         [key EXCEPT !.a.at_parent = TRUE]
    [] rt = "ZskRoll" ->
         [key EXCEPT !.a.present = TRUE, !.pubd = TRUE]
    [] rt = "ZskDoubleSignatureRoll" ->
         [key EXCEPT !.a.present = TRUE, !.a.signer = TRUE, !.pubd = TRUE]
    [] rt = "CskRoll" ->
         (CASE t = "ksk" -> [key EXCEPT !.a.present = TRUE, !.a.signer = TRUE, !.pubd = TRUE]
            [] t = "zsk" -> [key EXCEPT !.a.present = TRUE, !.pubd = TRUE]
            [] OTHER     -> [key EXCEPT !.a.present = TRUE, !.a.signer = TRUE,
                                        !.b.present = TRUE, !.pubd = TRUE])
    [] rt = "AlgorithmRoll" ->
         (IF t = "csk"
          THEN [key EXCEPT !.a.present = TRUE, !.a.signer = TRUE,
                           !.b.present = TRUE, !.b.signer = TRUE, !.pubd = TRUE]
          ELSE [key EXCEPT !.a.present = TRUE, !.a.signer = TRUE, !.pubd = TRUE])

\* the two loops over `old` and `new`; the first error in list order wins
ProcOld(rt, ks, old) ==
  LET F[i \in 0..Len(old)] ==
        IF i = 0 THEN [err |-> "", ks |-> ks]
        ELSE LET p == F[i - 1]
                 k == old[i]
             IN IF p.err # "" THEN p
                ELSE IF k \notin DOMAIN p.ks THEN [p EXCEPT !.err = "KeyNotFound"]
                ELSE IF ~TypeOk(rt, KType(k)) THEN [p EXCEPT !.err = "WrongKeyType"]
                ELSE [p EXCEPT !.ks[k] = MarkOld(k, @)]
  IN F[Len(old)]

ProcNew(rt, start, new) ==
  LET F[i \in 0..Len(new)] ==
        IF i = 0 THEN start
        ELSE LET p == F[i - 1]
                 k == new[i]
             IN IF p.err # "" THEN p
                ELSE IF k \notin DOMAIN p.ks THEN [p EXCEPT !.err = "KeyNotFound"]
                ELSE IF ~TypeOk(rt, KType(k)) THEN [p EXCEPT !.err = "WrongKeyType"]
                ELSE IF ~IsFresh(k, p.ks[k]) THEN [p EXCEPT !.err = "WrongKeyState"]
                ELSE [p EXCEPT !.ks[k] = Incoming(rt, k, @)]
  IN F[Len(new)]

AlgsOf(s) == {KAlg(s[i]) : i \in 1..Len(s)}

\* "Make sure we have at least one key in incoming state."
FinalGuard(rt, ks) ==
  LET D == DOMAIN ks IN
  CASE rt = "KskRoll" ->
         \E k \in D : KType(k) = "ksk" /\ ~ks[k].a.old /\ ks[k].a.present
    [] rt = "KskDoubleDsRoll" ->
         \E k \in D : KType(k) = "ksk" /\ ~ks[k].a.old /\ ks[k].a.at_parent
    [] rt \in ZskRolls ->        \* sic: `||` in update_zsk / update_zsk_double_signature
         \E k \in D : KType(k) = "zsk" /\ (~ks[k].a.old \/ ks[k].a.present)
    [] OTHER ->
         /\ \E k \in D : KType(k) \in {"ksk", "csk"} /\ ~ks[k].a.old /\ ks[k].a.present
         /\ \E k \in D : KType(k) \in {"zsk", "csk"} /\ ~ZS(k, ks[k]).old /\ ZS(k, ks[k]).present

\* rolls that may run concurrently with rt
Compat(rt) == CASE rt \in KskRolls -> ZskRolls
                [] rt \in ZskRolls -> KskRolls
                [] OTHER           -> {}

Active(rs) == {r \in RollTypes : rs[r].st # "Idle"}

\* the error(s) of the conflict check (`find` over a HashMap: if several
\* conflicting rolls were active the one found first decides)
ConflictErrs(rt, rs) ==
  LET bad == Active(rs) \ Compat(rt)
  IN {IF r = rt THEN "WrongStateForRollOperation" ELSE "ConflictingRollInProgress" : r \in bad}

Out(res, ks, rs, acts) == [acts |-> acts, keys |-> ks, res |-> res, rolls |-> rs]
Refuse(res, ks, rs) == Out(res, ks, rs, <<>>)

StartRoll(rt, old, new, ks, rs) ==
  LET ce == ConflictErrs(rt, rs) IN
  IF ce # {} THEN {Refuse(e, ks, rs) : e \in ce}
  ELSE
  LET po == ProcOld(rt, ks, old)
      pn == ProcNew(rt, po, new)
  IN IF pn.err # "" THEN {Refuse(pn.err, ks, rs)}
     ELSE IF rt # "AlgorithmRoll" /\ AlgsOf(old) # AlgsOf(new)
       THEN {Refuse("AlgorithmSetsMismatch", ks, rs)}
     ELSE IF ~FinalGuard(rt, pn.ks)
       THEN {Refuse("NoSuitableKeyPresent", ks, rs)}
     ELSE {Out("ok", pn.ks, [rs EXCEPT ![rt] = [st |-> "P1", ttl |-> 0]], ActionsOf(rt, "P1"))}

--------------------------------------------------------------------------
(* The roll functions: per key, what a step stamps, checks and moves *)

\* propagationN_complete: timestamps set to now (age 0)
Stamp(rt, ph, k, key) ==
  LET t == KType(k)
      a == key.a
      z == ZS(k, key)
      np == ~a.old /\ a.present      \* "new and present" in the KSK-role / only state
  IN
  CASE rt = "KskRoll" /\ t = "ksk" ->
         (IF ph = 1 THEN (IF np THEN [key EXCEPT !.vis = 0] ELSE key)
          ELSE IF ~a.old /\ a.at_parent THEN [key EXCEPT !.dsv = 0] ELSE key)
    [] rt = "KskDoubleDsRoll" /\ t = "ksk" ->
         (IF ph = 1 THEN (IF ~a.old /\ a.at_parent THEN [key EXCEPT !.dsv = 0] ELSE key)
          ELSE IF np THEN [key EXCEPT !.vis = 0] ELSE key)
    [] rt = "ZskRoll" /\ t = "zsk" ->
         (IF ph = 1 THEN (IF np THEN [key EXCEPT !.vis = 0] ELSE key)
          ELSE IF ~a.old /\ a.signer THEN [key EXCEPT !.rsv = 0] ELSE key)
    [] rt = "ZskDoubleSignatureRoll" /\ t = "zsk" ->
         (IF ph = 1 /\ np THEN [key EXCEPT !.vis = 0, !.rsv = 0] ELSE key)
    [] rt = "CskRoll" /\ t \in {"ksk", "zsk", "csk"} ->
         (IF ph = 1 THEN (IF np THEN [key EXCEPT !.vis = 0] ELSE key)
          ELSE LET k1 == IF t \in {"ksk", "csk"} /\ np THEN [key EXCEPT !.dsv = 0] ELSE key
               IN IF t \in {"zsk", "csk"} /\ ~z.old /\ z.signer THEN [k1 EXCEPT !.rsv = 0] ELSE k1)
    [] rt = "AlgorithmRoll" /\ t \in {"ksk", "zsk", "csk"} ->
         (IF ph = 1 THEN (IF ~np THEN key
                          ELSE IF t = "ksk" THEN [key EXCEPT !.vis = 0]
                          ELSE [key EXCEPT !.vis = 0, !.rsv = 0])
          ELSE IF t \in {"ksk", "csk"} /\ np THEN [key EXCEPT !.dsv = 0] ELSE key)
    [] OTHER -> key

\* cache_expiredN: the timestamp the loop reads for this key ("" = key skipped)
GuardField(dev, rt, ph, k, key) ==
  LET t == KType(k)
      a == key.a
      z == ZS(k, key)
      np == ~a.old /\ a.present
  IN
  CASE rt = "KskRoll" /\ t = "ksk" ->
         (IF "D_ksk_stale_filter" \in dev
          THEN (IF Stale(a) THEN "" ELSE IF ph = 1 THEN "vis" ELSE "dsv")
          ELSE IF ph = 1 THEN (IF np THEN "vis" ELSE "")
               ELSE (IF ~a.old /\ a.at_parent THEN "dsv" ELSE ""))
    [] rt = "KskDoubleDsRoll" /\ t = "ksk" ->
         (IF ph = 1 THEN (IF ~a.old /\ a.at_parent THEN "dsv" ELSE "")
          ELSE IF np THEN (IF "D_double_ds_visible" \in dev THEN "dsv" ELSE "vis") ELSE "")
    [] rt \in ZskRolls /\ t = "zsk" ->
         (IF ph = 1 THEN (IF np THEN "vis" ELSE "")
          ELSE IF ~a.old /\ a.signer THEN "rsv" ELSE "")
    [] rt = "CskRoll" /\ t \in {"ksk", "zsk", "csk"} ->
         (IF ph = 1 THEN (IF np THEN "vis" ELSE "")
          ELSE IF t \in {"zsk", "csk"} /\ ~z.old /\ z.signer THEN "rsv" ELSE "")
    [] rt = "AlgorithmRoll" /\ t \in {"ksk", "zsk", "csk"} ->
         (IF ph = 1 THEN (IF np THEN "vis" ELSE "")
          ELSE IF t \in {"ksk", "csk"} /\ ~a.old /\ a.signer THEN "dsv" ELSE "")
    [] OTHER -> ""

TsOf(key, f) == CASE f = "vis" -> key.vis [] f = "dsv" -> key.dsv [] OTHER -> key.rsv

\* at_parent swap of the KSK role at cache_expired1 (KskRoll, CskRoll, AlgorithmRoll)
SwapDs(s) == IF s.present THEN [s EXCEPT !.at_parent = ~s.old] ELSE s
\* signer swap of the ZSK role at cache_expired1 (ZskRoll, CskRoll)
SwapSigner(s) == IF s.old THEN [s EXCEPT !.signer = FALSE]
                 ELSE IF s.present THEN [s EXCEPT !.signer = TRUE] ELSE s

\* cache_expiredN: the state changes
Move(rt, ph, k, key) ==
  LET t == KType(k)
      a == key.a
  IN
  CASE rt = "KskRoll" /\ t = "ksk" ->
         (IF ph = 1 THEN [key EXCEPT !.a = SwapDs(a)]
          ELSE IF a.old /\ a.present
               THEN [key EXCEPT !.a.signer = FALSE, !.a.present = FALSE, !.wd = TRUE]
               ELSE key)
    [] rt = "KskDoubleDsRoll" /\ t = "ksk" ->
         (IF ph = 1
          THEN (IF a.old /\ a.present
                  THEN [key EXCEPT !.a.present = FALSE, !.a.signer = FALSE]
                ELSE IF ~a.old /\ a.at_parent
                  THEN [key EXCEPT !.a.present = TRUE, !.a.signer = TRUE, !.pubd = TRUE]
                ELSE key)
          ELSE IF a.old /\ a.at_parent
               THEN [key EXCEPT !.a.at_parent = FALSE, !.wd = TRUE]
               ELSE key)
    [] rt = "ZskRoll" /\ t = "zsk" ->
         (IF ph = 1 THEN [key EXCEPT !.a = SwapSigner(a)]
          ELSE IF a.old /\ ~a.signer
               THEN [key EXCEPT !.a.present = FALSE, !.wd = TRUE]
               ELSE key)
    [] rt = "ZskDoubleSignatureRoll" /\ t = "zsk" ->
         (IF ph = 1 /\ a.old
          THEN [key EXCEPT !.a.present = FALSE, !.a.signer = FALSE, !.wd = TRUE]
          ELSE key)
    [] rt = "CskRoll" /\ t = "ksk" ->
         (IF ph = 1 THEN [key EXCEPT !.a = SwapDs(a)]
          ELSE IF a.old /\ a.present
               THEN [key EXCEPT !.a.signer = FALSE, !.a.present = FALSE, !.wd = TRUE]
               ELSE key)
    [] rt = "CskRoll" /\ t = "zsk" ->
         (IF ph = 1 THEN [key EXCEPT !.a = SwapSigner(a)]
          ELSE IF a.old /\ ~a.signer
               THEN [key EXCEPT !.a.present = FALSE, !.wd = TRUE]
               ELSE key)
    [] rt = "CskRoll" /\ t = "csk" ->
         (IF ph = 1 THEN [key EXCEPT !.a = SwapDs(a), !.b = SwapSigner(key.b)]
          ELSE LET k1 == IF a.old /\ a.present
                         THEN [key EXCEPT !.a.signer = FALSE, !.a.present = FALSE, !.wd = TRUE]
                         ELSE key
               IN IF k1.b.old /\ ~k1.b.signer
                  THEN [k1 EXCEPT !.b.present = FALSE, !.wd = TRUE]
                  ELSE k1)
    [] rt = "AlgorithmRoll" /\ t \in {"ksk", "zsk", "csk"} ->
         (IF ph = 1
          THEN (IF t = "zsk" THEN key ELSE [key EXCEPT !.a = SwapDs(a)])
          ELSE IF a.old /\ a.present
               THEN (IF t = "csk"
                     THEN [key EXCEPT !.a.signer = FALSE, !.a.present = FALSE,
                                      !.b.signer = FALSE, !.b.present = FALSE, !.wd = TRUE]
                     ELSE [key EXCEPT !.a.signer = FALSE, !.a.present = FALSE, !.wd = TRUE])
               ELSE key)
    [] OTHER -> key

--------------------------------------------------------------------------
(* The five step calls and roll_done *)

WrongState(ks, rs) == {Refuse("WrongStateForRollOperation", ks, rs)}

PropagationComplete(rt, ph, ttl, ks, rs) ==
  IF rs[rt].st # (IF ph = 1 THEN "P1" ELSE "P2") THEN WrongState(ks, rs)
  ELSE LET nst == IF ph = 1 THEN "CE1" ELSE "CE2"
       IN {Out("ok", [k \in DOMAIN ks |-> Stamp(rt, ph, k, ks[k])],
               [rs EXCEPT ![rt] = [st |-> nst, ttl |-> ttl]], ActionsOf(rt, nst))}

CacheExpired(dev, rt, ph, ks, rs) ==
  IF rs[rt].st # (IF ph = 1 THEN "CE1" ELSE "CE2") THEN WrongState(ks, rs)
  ELSE
  LET ttl  == rs[rt].ttl
      rel  == {k \in DOMAIN ks : GuardField(dev, rt, ph, k, ks[k]) # ""}
      ts(k) == TsOf(ks[k], GuardField(dev, rt, ph, k, ks[k]))
      unset == \E k \in rel : ts(k) = None
      young == \E k \in rel : ts(k) # None /\ ts(k) < ttl
      nst  == IF ph = 1 THEN "P2" ELSE "Done"
  IN IF ~unset /\ ~young
     THEN {Out("ok", [k \in DOMAIN ks |-> Move(rt, ph, k, ks[k])],
               [rs EXCEPT ![rt] = [st |-> nst, ttl |-> 0]], ActionsOf(rt, nst))}
     ELSE (IF unset THEN {Refuse(IF "D_expect_panic" \in dev THEN "panic" ELSE "err", ks, rs)}
           ELSE {})
          \cup (IF young THEN {Refuse("Wait", ks, rs)} ELSE {})

RollDone(rt, ks, rs) ==
  IF rs[rt].st # "Done" THEN WrongState(ks, rs)
  ELSE {Out("ok", ks, [rs EXCEPT ![rt] = Idle], <<>>)}

--------------------------------------------------------------------------
(* Key management calls *)

AddKey(k, avail, tag, ks, rs) ==
  IF \E x \in DOMAIN ks : ks[x].tag = tag THEN {Refuse("DuplicateKeyTag", ks, rs)}
  ELSE IF k \in DOMAIN ks THEN {Refuse("KeyExists", ks, rs)}
  ELSE {Out("ok", [x \in DOMAIN ks \cup {k} |-> IF x = k THEN NewKey(k, avail, tag) ELSE ks[x]],
            rs, <<>>)}

WithKey(k, ks, rs, okset) ==
  IF k \notin DOMAIN ks THEN {Refuse("KeyNotFound", ks, rs)} ELSE okset

Upd(k, ks, rs, key) == {Out("ok", [ks EXCEPT ![k] = key], rs, <<>>)}

SetPresent(k, v, ks, rs) ==
  WithKey(k, ks, rs,
    LET key == ks[k]
        k1 == IF KType(k) = "csk" THEN [key EXCEPT !.a.present = v, !.b.present = v]
              ELSE [key EXCEPT !.a.present = v]
    IN Upd(k, ks, rs, IF v THEN [k1 EXCEPT !.pubd = TRUE] ELSE k1))

SetSigner(k, v, ks, rs) ==
  WithKey(k, ks, rs,
    IF KType(k) = "inc" THEN {Refuse("WrongKeyType", ks, rs)}
    ELSE Upd(k, ks, rs, IF KType(k) = "csk"
                        THEN [ks[k] EXCEPT !.a.signer = v, !.b.signer = v]
                        ELSE [ks[k] EXCEPT !.a.signer = v]))

SetAtParent(k, v, ks, rs) ==
  WithKey(k, ks, rs,
    IF KType(k) \in {"zsk", "inc"} THEN {Refuse("WrongKeyType", ks, rs)}
    ELSE Upd(k, ks, rs, [ks[k] EXCEPT !.a.at_parent = v]))

MkStale(s) == [s EXCEPT !.old = TRUE, !.present = FALSE, !.signer = FALSE, !.at_parent = FALSE]
SetStale(k, ks, rs) ==
  WithKey(k, ks, rs,
    Upd(k, ks, rs, IF KType(k) = "csk"
                   THEN [ks[k] EXCEPT !.a = MkStale(@), !.b = MkStale(@)]
                   ELSE [ks[k] EXCEPT !.a = MkStale(@)]))

SetDecoupled(k, v, ks, rs) == WithKey(k, ks, rs, Upd(k, ks, rs, [ks[k] EXCEPT !.dec = v]))

\* set_visible / set_ds_visible / set_rrsig_visible with a time `age` ticks ago
SetTs(f, k, age, ks, rs) ==
  WithKey(k, ks, rs,
    Upd(k, ks, rs, CASE f = "vis" -> [ks[k] EXCEPT !.vis = age]
                     [] f = "dsv" -> [ks[k] EXCEPT !.dsv = age]
                     [] OTHER     -> [ks[k] EXCEPT !.rsv = age]))

DeleteKey(k, ks, rs) ==
  WithKey(k, ks, rs,
    IF ~Stale(ks[k].a) \/ (KType(k) = "csk" /\ ~Stale(ks[k].b))
    THEN {Refuse("KeyNotOld", ks, rs)}
    ELSE {Out("ok", [x \in DOMAIN ks \ {k} |-> ks[x]], rs, <<>>)})

\* time passes: every timestamp is one tick older
Older(x) == IF x = None \/ x >= MaxTTL THEN x ELSE x + 1
TickKeys(ks) == [k \in DOMAIN ks |->
                   [ks[k] EXCEPT !.vis = Older(@), !.dsv = Older(@), !.rsv = Older(@)]]

--------------------------------------------------------------------------
(* The transition function: all outcomes of one public call *)

Outcomes(dev, ks, rs, o) ==
  CASE o.op = "add"                   -> AddKey(o.k, o.avail, o.tag, ks, rs)
    [] o.op = "set_present"           -> SetPresent(o.k, o.v, ks, rs)
    [] o.op = "set_signer"            -> SetSigner(o.k, o.v, ks, rs)
    [] o.op = "set_at_parent"         -> SetAtParent(o.k, o.v, ks, rs)
    [] o.op = "set_stale"             -> SetStale(o.k, ks, rs)
    [] o.op = "set_decoupled"         -> SetDecoupled(o.k, o.v, ks, rs)
    [] o.op = "set_visible"           -> SetTs("vis", o.k, o.age, ks, rs)
    [] o.op = "set_ds_visible"        -> SetTs("dsv", o.k, o.age, ks, rs)
    [] o.op = "set_rrsig_visible"     -> SetTs("rsv", o.k, o.age, ks, rs)
    [] o.op = "delete_key"            -> DeleteKey(o.k, ks, rs)
    [] o.op = "start_roll"            -> StartRoll(o.rt, o.old, o.new, ks, rs)
    [] o.op = "propagation1_complete" -> PropagationComplete(o.rt, 1, o.ttl, ks, rs)
    [] o.op = "cache_expired1"        -> CacheExpired(dev, o.rt, 1, ks, rs)
    [] o.op = "propagation2_complete" -> PropagationComplete(o.rt, 2, o.ttl, ks, rs)
    [] o.op = "cache_expired2"        -> CacheExpired(dev, o.rt, 2, ks, rs)
    [] o.op = "roll_done"             -> RollDone(o.rt, ks, rs)
    [] o.op = "tick"                  -> {Out("ok", TickKeys(ks), rs, <<>>)}

Do(o) == \E r \in Outcomes(Dev, keys, rolls, o) :
           /\ keys' = r.keys
           /\ rolls' = r.rolls
           /\ last' = [acts |-> r.acts, op |-> o, res |-> r.res]

KSInit == /\ keys = << >>
          /\ rolls = [rt \in RollTypes |-> Idle]
          /\ last = [acts |-> <<>>, op |-> [op |-> "new"], res |-> "ok"]

--------------------------------------------------------------------------
(* Properties of the state machine itself (X01.2, X01.3) *)

\* X01.3: at most one roll of each conflict class
Exclusive ==
  /\ Cardinality(Active(rolls) \cap (KskRolls \cup AllRolls)) <= 1
  /\ Cardinality(Active(rolls) \cap (ZskRolls \cup AllRolls)) <= 1

\* X01.2: steps in order -- the only changes of a roll's state
StepOrder(rt) ==
  LET s == rolls[rt].st
      n == rolls'[rt].st
  IN s # n =>
       \/ s = "Idle" /\ n = "P1"  /\ last'.op.op = "start_roll"            /\ last'.op.rt = rt
       \/ s = "P1"   /\ n = "CE1" /\ last'.op.op = "propagation1_complete" /\ last'.op.rt = rt
       \/ s = "CE1"  /\ n = "P2"  /\ last'.op.op = "cache_expired1"        /\ last'.op.rt = rt
       \/ s = "P2"   /\ n = "CE2" /\ last'.op.op = "propagation2_complete" /\ last'.op.rt = rt
       \/ s = "CE2"  /\ n = "Done" /\ last'.op.op = "cache_expired2"       /\ last'.op.rt = rt
       \/ s = "Done" /\ n = "Idle" /\ last'.op.op = "roll_done"            /\ last'.op.rt = rt
Ordered == [][\A rt \in RollTypes : StepOrder(rt)]_ksvars

\* X01.2: a refused call changes nothing
RefusedUnchanged == [][last'.res # "ok" => keys' = keys /\ rolls' = rolls]_ksvars

\* X01.2: no call panics
NoPanic == last.res # "panic"

\* the stored ttl is meaningful only while waiting for caches
TtlOnlyWhenWaiting == \A rt \in RollTypes : rolls[rt].st \notin {"CE1", "CE2"} => rolls[rt].ttl = 0

\* a ZSK / Include key never gets a DS; the second state is used by CSKs only
Shape == \A k \in DOMAIN keys :
           /\ KType(k) \in {"zsk", "inc"} => ~keys[k].a.at_parent
           /\ KType(k) = "inc" => ~keys[k].a.signer
           /\ KType(k) # "csk" => keys[k].b = St0
           /\ ~keys[k].b.at_parent
=============================================================================
