--------------------------- MODULE MC_StubResolver ---------------------------
(* Model-checking wrapper for StubResolver: finite configuration sets.       *)
EXTENDS StubResolver

\* one question pair against up to three opaque servers, every outcome and
\* latency (reply before the RTT timer, after it, never), short and long
\* options.timeout
MCQ_Search  == {<<>>}
MCQ_TcpOnly == {{}}
MCQ_TooLong == {{}}

\* search lists over two suffixes and the root
MCS_Search  == {<<>>, <<0>>, <<1>>, <<1, 2>>, <<1, 0, 2>>, <<2, 1, 0>>}
MCL_Search  == {<<1>>}
MCS_TooLong == {{}, {2}}

\* real transports: two servers, UDP / TCP outcomes
MCT_TcpOnly == {{}, {1}, {2}}

Done == sph = "done" /\ UNCHANGED vars
MCNext == Next \/ Done
MCSpec == Init /\ [][MCNext]_vars /\ WF_vars(Next)
=============================================================================
