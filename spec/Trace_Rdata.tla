---------------------------- MODULE Trace_Rdata ----------------------------
(* I->S for C05: every recorded answer of the real library about a record  *)
(* data value (accept / reject, re-composed octets, advertised length,      *)
(* canonical form) is recomputed from the Layout table of Rdata.tla.        *)
(* First event: the deviations listed as open ({"ev":"devs","open":[..]}).  *)
EXTENDS Rdata, TLC, Json, IOUtils

Rec == ndJsonDeserialize(IOEnv.TRACE)

VARIABLES l, devs, used
tvars == <<l, devs, used>>

IsEv(e) == l <= Len(Rec) /\ Rec[l].ev = e /\ l' = l + 1
Range(s) == {s[i] : i \in 1..Len(s)}

TInit == l = 1 /\ devs = {} /\ used = {}

T_Devs == /\ IsEv("devs")
          /\ devs' = Range(Rec[l].open)
          /\ UNCHANGED used

IssueEq == "value parsed back compares unequal (==)"

\* which deviation (if any) explains a non-empty list of inconsistencies
DevOf(x, v, issues) ==
  IF issues = <<IssueEq>> /\ (x = "OPT" \/ x = "UNKNOWN") THEN "D_alldata_eq_opt_unknown"
  ELSE "none"

T_Rd ==
  /\ IsEv("rd")
  /\ UNCHANGED devs
  /\ LET e == Rec[l]
         x == MnemonicOf(e.rtype)
         r == ParseRd(x, e.rd)
     IN IF r.ok
        THEN /\ e.parse = "ok"
             /\ e.wire = ComposeRd(x, r.val)          \* = e.rd, by LawMutants
             /\ e.wire = e.rd
             /\ e.len = RdLen(x, r.val)
             /\ e.canon = CanonRd(x, r.val)
             /\ e.known = (x # "UNKNOWN")
             /\ IF e.issues = <<>> THEN used' = used
                ELSE LET d == DevOf(x, r.val, e.issues)
                     IN d \in devs /\ used' = used \cup {d}
        ELSE /\ UNCHANGED used
             /\ IF r.hard THEN e.parse = "err"
                ELSE e.parse \in {"ok", "err"}      \* RFC content rule only: either way

\* the type-bitmap builder driven with an arbitrary sequence of add calls
T_Bm == /\ IsEv("bm")
        /\ UNCHANGED <<devs, used>>
        /\ Rec[l].octets = ComposeBitmap(Range(Rec[l].adds))

\* an OPT record assembled from constructor arguments (any arguments: the
\* specification says which are refused and what the others are normalised to)
T_OptBuild ==
  /\ IsEv("optbuild")
  /\ UNCHANGED devs
  /\ LET q == Rec[l].pushes
         obs == Rec[l].obs
     IN IF OptBuildOdd(q) = {}
        THEN obs = OptBuildExp(q) /\ UNCHANGED used
        ELSE IF obs = OptBuildExp(q) THEN UNCHANGED used
        ELSE /\ "D_understood_odd_len" \in devs
             /\ obs = OptBuildExpOddDev(q)
             /\ used' = used \cup {"D_understood_odd_len"}

TNext == T_Devs \/ T_Rd \/ T_Bm \/ T_OptBuild
TSpec == TInit /\ [][TNext]_tvars

Accepted ==
  LET d == TLCGet("stats").diameter
  IN IF d = Len(Rec) + 1
     THEN TRUE
     ELSE /\ PrintT("TRACE_REJECTED " \o ToJson([matched |-> d - 1, total |-> Len(Rec),
                      event |-> IF d <= Len(Rec) THEN Rec[d] ELSE [ev |-> "none"]]))
          /\ FALSE
=============================================================================
