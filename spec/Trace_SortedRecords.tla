-------------------------- MODULE Trace_SortedRecords --------------------------
(* I->S for X07: random call sequences on one SortedRecords collection of   *)
(* up to ~60 records.  One event per public call with every argument, the   *)
(* result and the content afterwards; each event must be the transcribed     *)
(* operation applied to the previous content, and the content stays          *)
(* canonical with exact owner / RRset groups.                                *)
EXTENDS SortedRecords, Json, IOUtils

Tr == ndJsonDeserialize(IOEnv.TRACE)

VARIABLES l, coll
tvars == <<l, coll>>

IsEv(e) == l <= Len(Tr) /\ Tr[l].ev = e /\ l' = l + 1
TInit == l = 1 /\ coll = <<>>

LowRecs(c) == [i \in 1..Len(c) |-> [c[i] EXCEPT !.n = LowerName(@)]]
\* the recorded content afterwards and group sizes
Agrees(e, c) ==
  /\ LowRecs(c) = LowRecs(e.after)
  /\ IsCanonical(c) /\ GroupsExact(c) /\ RrsetsExact(c)
  /\ e.groups = [i \in 1..Len(OwnerGroups(c)) |-> Len(OwnerGroups(c)[i])]
  /\ e.rrsets = [i \in 1..Len(Rrsets(c)) |-> Len(Rrsets(c)[i])]
Do(e, x, res) == x.res = res /\ coll' = x.coll /\ Agrees(e, x.coll)

T_Reset == IsEv("from") /\ LET e == Tr[l] IN Do(e, FromVec(e.batch), "ok")
T_Extend == IsEv("extend") /\ LET e == Tr[l] IN Do(e, Extend(coll, e.batch), "ok")
T_Insert == IsEv("insert") /\ LET e == Tr[l] x == Insert(coll, e.r)
                              IN x.res.ok = e.ok /\ coll' = x.coll /\ Agrees(e, x.coll)
T_RemoveAll == IsEv("remove_all") /\ LET e == Tr[l] IN Do(e, RemoveAll(coll, e.n, e.t), e.res)
\* remove_first with a single match only (which of several is removed is the
\* subject of D_remove_first_is_last and of the S->I cases)
T_RemoveFirst == IsEv("remove_first") /\ LET e == Tr[l] IN Do(e, RemoveFirst(coll, e.n, e.t), e.res)

TNext == T_Reset \/ T_Extend \/ T_Insert \/ T_RemoveAll \/ T_RemoveFirst
TSpec == TInit /\ [][TNext]_tvars

Accepted ==
  LET d == TLCGet("stats").diameter
  IN IF d = Len(Tr) + 1 THEN TRUE
     ELSE /\ PrintT("TRACE_REJECTED " \o ToJson([matched |-> d - 1, total |-> Len(Tr),
                      event |-> IF d <= Len(Tr) THEN [ev |-> Tr[d].ev, seq |-> Tr[d].seq]
                                ELSE [ev |-> "none"]]))
          /\ FALSE
=============================================================================
