---------------------------- MODULE Trace_Rrsig ----------------------------
(* I->S for C12: a recorded run of the real signer / validator-side        *)
(* reconstruction on random RRsets must be explained by Rrsig.tla: the     *)
(* RRSIG fields and the captured sign_raw buffer are the RFC construction  *)
(* and the signer transcription; every later reconstruction is the         *)
(* validator transcription, equal to the signed octets after legitimate    *)
(* transforms and different after an alteration.                           *)
EXTENDS SignerInput, Json, IOUtils

Rec == ndJsonDeserialize(IOEnv.TRACE)

VARIABLES l, signed
tvars == <<l, signed>>

IsEv(e) == l <= Len(Rec) /\ Rec[l].ev = e /\ l' = l + 1

TInit == l = 1 /\ signed = <<>>

T_Sign ==
  /\ IsEv("sign")
  /\ LET e == Rec[l]
         f == SignerFields(e.key, e.keyOwner, e.rrs, e.inc, e.exp)
     IN /\ f = e.res.sig0
        /\ NoDuplicates(e.rrs)
        /\ SignedData(f, e.rrs) = e.res.buf
        /\ SignerOctets(f, e.rrs) = e.res.buf
        \* sign_sorted_rrset_in with the scratch buffer every earlier call used
        \* (e.pre: the backend failed once and the call was retried / the
        \* buffer was not empty on entry): each hand-over is this RRset's
        \* signed data, the final RRSIG is the same as sign_rrset's
        /\ \A i \in 1..Len(e.res.bufs_in) : e.res.bufs_in[i] = SignedData(f, e.rrs)
        /\ e.res.last_ok
        /\ signed' = e.res.buf

T_Validate ==
  /\ IsEv("validate")
  /\ LET e == Rec[l]
     IN /\ e.sigc = e.sig          \* conversions (flatten / octets) kept every RRSIG field
        /\ ValidatorOctets(e.sig, e.cur) = e.res.buf
        /\ SignedData(e.sig, e.cur) = e.res.buf
        /\ (~e.altered) => e.res.buf = signed
        /\ e.altered => e.res.buf # signed
  /\ UNCHANGED signed

\* a real key of one of the backend's algorithms ("direct" or through the
\* BIND private-key format) signs an RRset: the key pair is the public key it
\* was made from and says so, the RRSIG names that key (algorithm, RFC 4034
\* App. B tag of the real key octets) and has the RFC fields, the signature
\* has the algorithm's length and verifies under that key only - not under
\* another key, not when key and RRSIG are relabelled as a sibling algorithm
T_KeySign ==
  /\ IsEv("keysign")
  /\ LET e == Rec[l]
         f == SignerFields(e.key, e.keyOwner, e.rrs, e.inc, e.exp)
         d == SignedData(f, e.rrs)
         s == SignTerm(e.key, d)
         sib == SiblingAlg(e.key.alg)
     IN /\ e.key = e.made_from
        /\ e.key.alg \in SignAlgs /\ KeyWellFormed(e.key)
        \* a key the signer signs with is a key the validator takes (RSA: up
        \* to RFC 3110's 4096 bits)
        /\ SignerAccepts(e.key) /\ ValidatorAccepts(e.key)
        /\ e.algs.pair = e.key.alg /\ e.algs.secret = e.key.alg /\ e.algs.sig = e.key.alg
        /\ NoDuplicates(e.rrs)
        /\ f = e.res.sig
        /\ d = e.res.buf /\ ValidatorOctets(f, e.rrs) = d
        /\ e.res.siglen = SigLen(e.key)
        /\ e.res.keysize = KeySize(e.key)
        /\ e.res.verify = Verify(s, e.key, d)
        /\ e.res.verify_other = Verify(s, e.other, d)
        /\ e.res.verify_sibling = Verify(s, [e.key EXCEPT !.alg = sib], SignedData([f EXCEPT !.alg = sib], e.rrs))
  /\ UNCHANGED signed

\* a zone reached a SortedRecords collection by some route and was signed
\* through one of the entry points: the collection handed its records out in
\* canonical order without duplicates (the precondition of the entry points
\* that trust the order), sign_raw received exactly one buffer per RRset of
\* the zone - SignedData of that RRset -, and every RRSIG a real key made the
\* same way verified over its RRset presented in any order
T_SignZone ==
  /\ IsEv("signzone")
  /\ LET e == Rec[l]
         x == [key |-> e.key, keyOwner |-> e.keyOwner, inc |-> e.inc, exp |-> e.exp]
         g == RrRuns(e.stored)
     IN /\ SR!IsCanonical(OfRrs(e.stored))
        /\ Len(e.res.handed) = Len(g)
        /\ \A i \in 1..Len(g) :
              /\ CanonicalRrset(g[i])
              /\ e.res.handed[i] = SignedData(Fields(x, g[i]), g[i])
        /\ e.res.verify
  /\ UNCHANGED signed

TNext == T_Sign \/ T_Validate \/ T_KeySign \/ T_SignZone
TSpec == TInit /\ [][TNext]_tvars

Accepted ==
  LET d == TLCGet("stats").diameter
  IN IF d = Len(Rec) + 1 THEN TRUE
     ELSE /\ PrintT("TRACE_REJECTED " \o ToJson([matched |-> d - 1, total |-> Len(Rec),
                      event |-> IF d <= Len(Rec) THEN Rec[d] ELSE [ev |-> "none"]]))
          /\ FALSE
=============================================================================
