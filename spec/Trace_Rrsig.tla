---------------------------- MODULE Trace_Rrsig ----------------------------
(* I->S for C12: a recorded run of the real signer / validator-side        *)
(* reconstruction on random RRsets must be explained by Rrsig.tla: the     *)
(* RRSIG fields and the captured sign_raw buffer are the RFC construction  *)
(* and the signer transcription; every later reconstruction is the         *)
(* validator transcription, equal to the signed octets after legitimate    *)
(* transforms and different after an alteration.                           *)
EXTENDS Rrsig, TLC, Json, IOUtils

Rec == ndJsonDeserialize(IOEnv.TRACE)

VARIABLES l, signed
tvars == <<l, signed>>

IsEv(e) == l <= Len(Rec) /\ Rec[l].ev = e /\ l' = l + 1

TInit == l = 1 /\ signed = <<>>

T_Sign ==
  /\ IsEv("sign")
  /\ LET e == Rec[l]
         f == SignerFields(e.key, e.keyOwner, e.rrs, e.inc, e.exp)
     IN /\ f = e.res.sig0
        /\ NoDuplicates(e.rrs)
        /\ SignedData(f, e.rrs) = e.res.buf
        /\ SignerOctets(f, e.rrs) = e.res.buf
        \* sign_sorted_rrset_in with the scratch buffer every earlier call used
        \* (e.pre: the backend failed once and the call was retried / the
        \* buffer was not empty on entry): each hand-over is this RRset's
        \* signed data, the final RRSIG is the same as sign_rrset's
        /\ \A i \in 1..Len(e.res.bufs_in) : e.res.bufs_in[i] = SignedData(f, e.rrs)
        /\ e.res.last_ok
        /\ signed' = e.res.buf

T_Validate ==
  /\ IsEv("validate")
  /\ LET e == Rec[l]
     IN /\ e.sigc = e.sig          \* conversions (flatten / octets) kept every RRSIG field
        /\ ValidatorOctets(e.sig, e.cur) = e.res.buf
        /\ SignedData(e.sig, e.cur) = e.res.buf
        /\ (~e.altered) => e.res.buf = signed
        /\ e.altered => e.res.buf # signed
  /\ UNCHANGED signed

TNext == T_Sign \/ T_Validate
TSpec == TInit /\ [][TNext]_tvars

Accepted ==
  LET d == TLCGet("stats").diameter
  IN IF d = Len(Rec) + 1 THEN TRUE
     ELSE /\ PrintT("TRACE_REJECTED " \o ToJson([matched |-> d - 1, total |-> Len(Rec),
                      event |-> IF d <= Len(Rec) THEN Rec[d] ELSE [ev |-> "none"]]))
          /\ FALSE
=============================================================================
