CONSTANTS
  Dev = {"D_b64_push_after_badpad", "D_b64_illegal_not_latched"}
  MaxLen = 6
  Deep32 = FALSE
  MaxOct = 2
SPECIFICATION Spec
INVARIANT MachineEqualsFunction
INVARIANT IndexInBounds
CHECK_DEADLOCK FALSE
