----------------------------- MODULE BuildLimit -----------------------------
(* C19 -- the size limit of a message builder, for both builders.            *)
(*                                                                          *)
(* A builder has a hard limit (target capacity / buffer size, narrowed by    *)
(* new::MessageBuilder::limit_to) and, on the established builder, a soft    *)
(* limit (set_push_limit).  Both are in octets of the whole message, the    *)
(* 12 header octets included -- MsgBuilder.tla (C02) is the referee:         *)
(*   MayOk(n)  == n <= cfg.cap /\ n <= limit                                 *)
(*   MayErr(n) == n > cfg.cap \/ n >= limit                                  *)
(* with n the length the message has when the push is admitted (whether a    *)
(* message of exactly the soft limit exceeds it is left open there and       *)
(* here).  A push is admitted iff the message then stays within the limits;  *)
(* an admitted push adds one to its section's count and grows the message   *)
(* to n; a refused one changes nothing.  limit_to(p) fails iff the message   *)
(* is already longer than p and otherwise can only narrow the hard limit;    *)
(* set_push_limit(p) replaces the soft limit.  Discarding the contents       *)
(* (truncate() / builder()) leaves the limits alone.                         *)
(*                                                                          *)
(* The length n of an item under name compression lies between the ideal     *)
(* (every name cut at its longest suffix written before) and the             *)
(* uncompressed length.                                                     *)
EXTENDS Naturals, Sequences, FiniteSets

NoLimit == 2000000000

RECURSIVE SumLens(_)
SumLens(n) == IF n = <<>> THEN 0 ELSE Len(Head(n)) + 1 + SumLens(Tail(n))
Full(n) == SumLens(n) + 1
Suffixes(n) == {SubSeq(n, k, Len(n)) : k \in 1..Len(n)}
\* the shortest encoding: labels up to the longest suffix known, a pointer
MinName(n, known) ==
  LET ks == {k \in 0..(Len(n) - 1) : SubSeq(n, k + 1, Len(n)) \in known} IN
  IF ks = {} THEN Full(n)
  ELSE LET k == CHOOSE x \in ks : \A y \in ks : x <= y
       IN SumLens(SubSeq(n, 1, k)) + 2

RECURSIVE MinNames(_, _)
MinNames(names, known) ==
  IF names = <<>> THEN 0
  ELSE MinName(Head(names), known) + MinNames(Tail(names), known \cup Suffixes(Head(names)))
RECURSIVE MaxNames(_)
MaxNames(names) == IF names = <<>> THEN 0 ELSE Full(Head(names)) + MaxNames(Tail(names))
RECURSIVE AllSuffixes(_)
AllSuffixes(names) == IF names = <<>> THEN {} ELSE Suffixes(Head(names)) \cup AllSuffixes(Tail(names))

\* the names of an item in the order they are written
\* (item: <<0, <<qname, qtype, qclass>>>> or <<sec, <<owner, type, class, _, ttl, rdata names, _>>>>)
ItemNames(it) == IF it[1] = 0 THEN <<it[2][1]>> ELSE <<it[2][1]>> \o it[2][6]

\* state of a run
Init(cap) == [len |-> 12, hard |-> cap, soft |-> NoLimit, counts |-> <<0, 0, 0, 0>>, known |-> {}, ok |-> TRUE, amb |-> FALSE, bounds |-> <<>>, clean |-> TRUE]

MustOk(st, n)  == n <= st.hard /\ n < st.soft
MustErr(st, n) == n > st.hard \/ n > st.soft
\* What length a refused push would have needed is not observable.  The
\* recorder measures it (`need`) on a fresh builder that is given the admitted
\* items and then this one: that is the builder's own state as long as no
\* push has been refused and nothing discarded (`clean`: same calls, same
\* state).  Afterwards a compressor may know fewer names than the ideal one
\* (the new one does), so a refusal is only wrong when even the
\* uncompressed item fits.

\* one logged call against the state; kind: "hard" (limit_to) or "soft"
\* (set_push_limit) for the limiting call of this builder
Step(st, op, kind, item, fixed) ==
  CASE op.op = "limit" ->
         IF kind = "soft"
         THEN [st EXCEPT !.soft = op.p, !.ok = st.ok /\ op.ok /\ op.len = st.len /\ op.counts = st.counts]
         ELSE [st EXCEPT !.hard = IF op.ok /\ op.p < st.hard THEN op.p ELSE st.hard,
                         !.ok = st.ok /\ (op.ok <=> st.len <= op.p) /\ op.len = st.len /\ op.counts = st.counts]
    [] op.op = "trunc" ->
         [st EXCEPT !.len = 12, !.counts = <<0, 0, 0, 0>>, !.known = {}, !.clean = FALSE,
                    !.ok = st.ok /\ op.len = 12 /\ op.counts = <<0, 0, 0, 0>>]
    [] op.op = "push" ->
         LET names == ItemNames(item)
             lo == st.len + fixed + MinNames(names, st.known)
             hi == st.len + fixed + MaxNames(names)
             n == op.need
             inc == [st.counts EXCEPT ![op.sec + 1] = st.counts[op.sec + 1] + 1]
             good == /\ st.clean => (lo <= n /\ n <= hi)
                     /\ op.ok => (lo <= op.len /\ op.len <= hi /\ ~MustErr(st, op.len))
                     /\ (op.ok /\ st.clean) => op.len = n
                     /\ (~op.ok /\ st.clean) => ~MustOk(st, n)
                     /\ ~op.ok => (~MustOk(st, hi) /\ op.len = st.len)
                     /\ op.counts = IF op.ok THEN inc ELSE st.counts
         IN [st EXCEPT !.len = op.len, !.counts = op.counts,
                       !.known = IF op.ok THEN st.known \cup AllSuffixes(names) ELSE st.known,
                       !.ok = st.ok /\ good,
                       !.amb = st.amb \/ (n = st.soft /\ n <= st.hard) \/ (op.len = st.soft /\ op.ok),
                       !.clean = st.clean /\ op.ok,
                       !.bounds = Append(st.bounds, IF st.soft - 1 < st.hard THEN st.soft - 1 ELSE st.hard)]
    [] OTHER -> [st EXCEPT !.ok = FALSE]

\* fold a run: pushes take the script's items in order
RECURSIVE Fold(_, _, _, _, _, _, _)
Fold(st, steps, i, kind, items, fixed, k) ==
  IF i > Len(steps) THEN [st |-> st, pushes |-> k - 1]
  ELSE IF steps[i].op = "push"
       THEN IF k > Len(items) THEN [st |-> [st EXCEPT !.ok = FALSE], pushes |-> k]
            ELSE Fold(Step(st, steps[i], kind, items[k], fixed[k]), steps, i + 1, kind, items, fixed, k + 1)
       ELSE Fold(Step(st, steps[i], kind, <<>>, 0), steps, i + 1, kind, items, fixed, k)

PushOks(steps) == LET ps == SelectSeq(steps, LAMBDA s : s.op = "push") IN [i \in 1..Len(ps) |-> ps[i].ok]
Needs(steps) == LET ps == SelectSeq(steps, LAMBDA s : s.op = "push") IN [i \in 1..Len(ps) |-> ps[i].need]
Lens(steps) == LET ps == SelectSeq(steps, LAMBDA s : s.op = "push") IN [i \in 1..Len(ps) |-> ps[i].len]
\* the pushes up to and including the first refused one
FirstFail(oks) == LET f == {i \in 1..Len(oks) : ~oks[i]} IN IF f = {} THEN Len(oks) ELSE CHOOSE i \in f : \A j \in f : i <= j
Upto(s, k) == SubSeq(s, 1, k)
=============================================================================
