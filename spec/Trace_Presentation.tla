------------------------- MODULE Trace_Presentation -------------------------
(* I->S for C06: the library wrote a record as text and read it back.       *)
(*   ev = "devs": the deviations listed as open (writer and reader side)    *)
(*   ev = "rt":   rec (wire form), kind, origin, text, res (what the        *)
(*                library's reader returned), eq (the library found the     *)
(*                record equal)                                             *)
(*   ev = "zone": recs (wire forms), kinds, mode ("cat" one writer per       *)
(*                record / "fmt" one FormatWriter with newline()), cfg       *)
(*                (origin, dclass, allow), ctor (how the reader was set up), *)
(*                text, res                                                  *)
(* Checked per event: (a) the reader machine of ZoneFile.tla, given the     *)
(* library's text, returns the recorded outcome; (b) that outcome is the    *)
(* record that was written -- unless the specification's own reader says    *)
(* the text does not denote the record, which only an open writer           *)
(* deviation can explain (reported as TRACE_DEV).                           *)
EXTENDS Presentation, TLC, Json, IOUtils

Rec == ndJsonDeserialize(IOEnv.TRACE)
VARIABLE l
tvars == <<l>>

OpenDevs == IF Len(Rec) >= 1 /\ Rec[1].ev = "devs" THEN {Rec[1].open[i] : i \in 1..Len(Rec[1].open)} ELSE {}
IsEv(e) == l <= Len(Rec) /\ Rec[l].ev = e /\ l' = l + 1

Written(e) == [entries |-> <<e.rec>>, err |-> FALSE]

\* (ReadBackX: where the reader of ZoneFile.tla abstains on the record type
\* -- CAA -- the line reader of Presentation.tla with the field readers decides)
ReaderOk(e) ==
  LET o == ReadBackX(e.text, e.origin, {}) IN
  \/ o = Unmodelled \/ o = e.res
  \/ \E dv \in (SUBSET (OpenDevs \cap AllDevs)) \ {{}} :
        LET d == ReadBack(e.text, e.origin, dv) IN d = Unmodelled \/ d = e.res

\* the guards of the writer deviations, on the wire form of the record
RECURSIVE LabelsHave(_, _, _)
LabelsHave(w, i, set) ==      \* some label octet of the wire name w (from index i) is in set
  IF i > Len(w) \/ w[i] = 0 THEN FALSE
  ELSE (\E k \in (i + 1)..(i + w[i]) : k <= Len(w) /\ w[k] \in set) \/ LabelsHave(w, i + 1 + w[i], set)
RECURSIVE NameEnd(_, _)
NameEnd(w, i) == IF i > Len(w) THEN Len(w) ELSE IF w[i] = 0 THEN i ELSE NameEnd(w, i + 1 + w[i])
NamesOf(rec) == <<rec.owner>> \o (IF rec.rtype \in NameTypes THEN <<rec.rdata>>
                                  ELSE IF rec.rtype = 15 THEN <<Drop(rec.rdata, 2)>>
                                  ELSE IF rec.rtype = 47 THEN <<SubSeq(rec.rdata, 1, NameEnd(rec.rdata, 1))>>   \* NSEC: next name
                                  ELSE <<>>)
Triggered(e) ==
  LET ns == NamesOf(e.rec) IN
  (IF \E i \in 1..Len(ns) : LabelsHave(ns[i], 1, LabelEscapeIdeal \ LabelEscapeCode)
   THEN {"D_label_escape_set"} ELSE {})
  \cup (IF e.kind = "display" /\ \E i \in 1..Len(ns) : ns[i] = <<0>> THEN {"D_display_root_dot"} ELSE {})

RoundTripOk(e) ==
  LET o == ReadBackX(e.text, e.origin, {}) IN
  \/ (e.res = Written(e) /\ e.eq)
  \/ /\ o # Unmodelled /\ o # Written(e)          \* the text does not denote the record
     /\ Triggered(e) \cap OpenDevs # {}            \* ... and the record is one a writer deviation applies to
     /\ PrintT("TRACE_DEV " \o ToJson([devs |-> Triggered(e) \cap OpenDevs, kind |-> e.kind, text |-> e.text]))

\* --- zones: the configured reader machine explains what the library read,
\* and that is what the property demands of the records written
ZoneReaderOk(e) ==
  LET o == ReadCfg(e.text, e.cfg, {}) IN
  \/ o = Unmodelled \/ o = e.res
  \/ \E dv \in (SUBSET (OpenDevs \cap AllDevs)) \ {{}} :
        LET d == ReadCfg(e.text, e.cfg, dv) IN d = Unmodelled \/ d = e.res
ZoneTriggered(e) ==
  UNION {Triggered([rec |-> e.recs[i], kind |-> e.kinds[i]]) : i \in 1..Len(e.recs)}
ZoneRoundTripOk(e) ==
  LET o == ReadCfg(e.text, e.cfg, {})
      want == ExpectedEntries(e.recs, e.cfg) IN
  \/ e.res = want
  \/ /\ o # Unmodelled /\ o # want
     /\ ZoneTriggered(e) \cap OpenDevs # {}
     /\ PrintT("TRACE_DEV " \o ToJson([devs |-> ZoneTriggered(e) \cap OpenDevs, kind |-> e.mode, text |-> e.text]))

TInit == l = 1
T_Devs == IsEv("devs")
T_Rt == IsEv("rt") /\ ReaderOk(Rec[l]) /\ RoundTripOk(Rec[l])
T_Zone == IsEv("zone") /\ ZoneReaderOk(Rec[l]) /\ ZoneRoundTripOk(Rec[l])
TNext == T_Devs \/ T_Rt \/ T_Zone
TSpec == TInit /\ [][TNext]_tvars

Accepted ==
  LET d == TLCGet("stats").diameter
  IN IF d = Len(Rec) + 1 THEN TRUE
     ELSE /\ PrintT("TRACE_REJECTED " \o ToJson([matched |-> d - 1, total |-> Len(Rec),
                      event |-> IF d <= Len(Rec) THEN Rec[d] ELSE [ev |-> "none"]]))
          /\ FALSE
=============================================================================
