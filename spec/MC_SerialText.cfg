CONSTANTS
  BITS = 5
  ERAS = 3
  PRE = 2
SPECIFICATION Spec
INVARIANT IOrder
INVARIANT IPlace
INVARIANT IAdd
INVARIANT IText
INVARIANT IInstant
INVARIANT IVacuity
PROPERTY PBoth
PROPERTY POne
CHECK_DEADLOCK FALSE
