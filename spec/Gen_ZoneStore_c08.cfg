CONSTANTS
  Dev <- AllDevs
  NodeNames <- Nodes_small
  QNames <- QNames_small
  Types <- AllTypes
  QTypes <- QTypesAll
  Vals = {1, 2}
  ValsOf <- MCValsOf
  OpFamilies = {"W", "U", "M", "B"}
  Writers = {"w1"}
  Readers = {}
  MaxVer = 4
  MaxOps = 16
  MaxZf = 4
  MaxHist = 32
  NsTarget <- MCNsTarget
SPECIFICATION GenSpec
INVARIANT EmitBehaviour
CHECK_DEADLOCK FALSE
