------------------------------ MODULE ZoneFile ------------------------------
(***************************************************************************)
(* The zone-file reader of domain (src/zonefile/inplace.rs), structured     *)
(* like the code:                                                           *)
(*                                                                          *)
(*  1. the *tokenizer machine*  = SourceBuf::next_item + _next_symbol:      *)
(*     one step per input octet (TkStep), one branch per character class;   *)
(*     it emits items (token / line feed) as the code's categoriser does;   *)
(*  2. the *entry machine*      = _scan_entry / scan_owner_record /         *)
(*     scan_ctr / scan_control: inherited context (origin, last owner,      *)
(*     last TTL, $TTL, last class) and one named action per entry shape     *)
(*     (Blank, Origin, Ttl, Include, RecordExplicitOwner, RecordAt,         *)
(*     RecordIndented);                                                     *)
(*  3. the reader  Feed / Finish / ReadAll  composing the two.              *)
(*                                                                          *)
(* Octets are 0..255.  Symbols: plain octet c is c, a simple escape \c is   *)
(* 256+c, a decimal escape \ddd is 512+v.                                   *)
(*                                                                          *)
(* Outcome of reading a file: [entries |-> <<...>>, err |-> BOOLEAN], or    *)
(* [panic |-> TRUE], or Unmodelled (the text uses a construct this spec     *)
(* deliberately does not decide: see "Unmodelled" below).                   *)
(*                                                                          *)
(* Named deviations (operators take the set dv of switched-on names; the    *)
(* constant Dev is what the model-checking configs use):                    *)
(*   D_scan_name_empty_label   a dot closing an empty label is accepted:    *)
(*                             "a..b" -> 01 61 00 01 62                     *)
(*   D_charstr_entry_no_token  scan_charstr_entry (TXT) does not require a  *)
(*                             token: no data before the line feed reads    *)
(*                             on into the next line; end of file panics    *)
(*   D_scan_int_overflow       u16/u32 scan adds the digit unchecked:       *)
(*                             "$TTL 4294967296" overflows (panic with      *)
(*                             overflow checks)                             *)
(*   D_scan_string_quote       scan_string on a quoted token keeps the      *)
(*                             closing quote: $INCLUDE "f" -> path f"       *)
(*   D_del_fast_path           next_ascii_symbol lets a raw DEL (0x7F) pass: *)
(*                             "a<DEL>" is accepted, "\a<DEL>" (escape first, *)
(*                             slow path) is a bad symbol; whether the fast   *)
(*                             path is taken depends on spelling and spacing  *)
(*                             (the spec abstains under this deviation)       *)
(*   D_marker_skips_delimiter  skip_unknown_marker skips the octet after    *)
(*                             "\#" unseen: "\#(" does not open a group,    *)
(*                             "\#" LF does not end the entry (the spec      *)
(*                             abstains under this deviation)               *)
(***************************************************************************)
EXTENDS Octets, FiniteSets

CONSTANT Dev

\* (D_svcb_key_charset belongs to the SvcParams scanner: keys with 'z' or '9')
AllDevs == {"D_svcb_key_charset", "D_scan_name_empty_label", "D_charstr_entry_no_token",
            "D_scan_int_overflow", "D_scan_string_quote", "D_marker_skips_delimiter",
            "D_del_fast_path"}
\* deviations of the routes around the reader (not of the reader machine):
\*   D_parsed_no_apex_unwrap   ZoneBuilder::try_from(parsed::Zonefile) unwraps the
\*                             apex: a zone file without any record (empty, only
\*                             comments / directives / $INCLUDE) converts to a
\*                             parsed::Zonefile and then panics instead of failing
\*   D_iter_marker_not_consumed IterScanner::scan_opt_unknown_marker only peeks at
\*                             "\#": the RFC 3597 generic form cannot be scanned
\*   D_iter_bad_escape_ends_token  IterScanner reads a token up to a malformed
\*                             escape sequence and drops the rest silently
RouteDevs == {"D_parsed_no_apex_unwrap", "D_iter_marker_not_consumed", "D_iter_bad_escape_ends_token"}

SP == 32  TAB == 9  CR == 13  LF == 10  LPAR == 40  RPAR == 41
SEMI == 59  QUOTE == 34  BSL == 92  DOT == 46  AT == 64  DOLLAR == 36  HASH == 35

IsDigit(c) == c >= 48 /\ c <= 57
Upper(b) == IF b >= 97 /\ b <= 122 THEN b - 32 ELSE b
UpperSeq(s) == [i \in 1..Len(s) |-> Upper(s[i])]

\* ------------------------------------------------------------- symbols
SymOct(s) == s % 256
IsPlain(s) == s < 256
IsSimple(s) == s >= 256 /\ s < 512
\* Symbol::into_octet: an unescaped character must be printable ASCII
OctetOk(s) == s >= 256 \/ (s >= 32 /\ s <= 126)
\* Symbol::into_ascii: the value must be printable ASCII, escaped or not
AsciiOk(s) == SymOct(s) >= 32 /\ SymOct(s) <= 126 /\ (s < 128 \/ s >= 256)
\* Symbol::is_word_char, on a raw unescaped octet
IsWordOctet(c) == c \notin {SP, TAB, CR, LF, LPAR, RPAR, SEMI, QUOTE}

\* ------------------------------------------------------------ tokenizer
\* m: "gap" (inside next_item's loop) | "cmt" | "word" | "quo"
\* e/ev: progress inside an escape sequence (0 none, 1 after '\', 2, 3)
\* par: open parentheses; sp: white space seen in this gap; tsp: has_space
\* of the current token; line: line number; syms: symbols of the current
\* token; pos: octets read; wr: octets the in-place conversion has written
\* at most (one length/spare octet per token plus one per symbol)
TkInit == [m |-> "gap", e |-> 0, ev |-> 0, par |-> 0, sp |-> FALSE, tsp |-> FALSE,
           line |-> 1, syms |-> <<>>, pos |-> 0, wr |-> 0, err |-> FALSE, p0 |-> 0]

\* items: a line feed (p: octets read so far), a token (q: quoted, sp:
\* has_space, syms, p0: position of its first octet, nx: the octet that ended
\* it, -1 for an unfinished token)
LfItem(tk) == [k |-> "lf", p |-> tk.pos]
TokItem(tk, q, nx) == [k |-> "tok", q |-> q, sp |-> tk.tsp, syms |-> tk.syms, p0 |-> tk.p0, nx |-> nx]

R(tk, items) == [tk |-> tk, items |-> items]

PushSym(tk, s) == [tk EXCEPT !.syms = Append(@, s), !.wr = @ + 1, !.e = 0, !.ev = 0]

\* a line feed seen by next_item (also the one ending a comment)
TkLineFeed(tk) ==
  IF tk.par = 0
  THEN R([tk EXCEPT !.m = "gap", !.line = @ + 1, !.sp = FALSE], <<LfItem(tk)>>)
  ELSE R([tk EXCEPT !.m = "gap", !.line = @ + 1], <<>>)

\* first octet of an unquoted token, or a later one
TkWordChar(tk, c) ==
  IF c = BSL THEN R([tk EXCEPT !.e = 1], <<>>) ELSE R(PushSym(tk, c), <<>>)

\* one action per character class of next_item
TkSpace(tk)      == R([tk EXCEPT !.sp = TRUE], <<>>)
TkOpenParen(tk)  == R([tk EXCEPT !.par = @ + 1], <<>>)
TkCloseParen(tk) == IF tk.par > 0 THEN R([tk EXCEPT !.par = @ - 1], <<>>)
                    ELSE R([tk EXCEPT !.err = TRUE], <<>>)
TkSemicolon(tk)  == R([tk EXCEPT !.m = "cmt"], <<>>)
TkQuoteOpen(tk)  == R([tk EXCEPT !.m = "quo", !.syms = <<>>, !.tsp = tk.sp, !.wr = @ + 1, !.p0 = tk.pos], <<>>)
TkWordStart(tk, c) ==
  TkWordChar([tk EXCEPT !.m = "word", !.syms = <<>>, !.tsp = tk.sp, !.wr = @ + 1, !.p0 = tk.pos], c)

TkGap(tk, c) ==
  IF c \in {SP, TAB, CR} THEN TkSpace(tk)
  ELSE IF c = LPAR THEN TkOpenParen(tk)
  ELSE IF c = RPAR THEN TkCloseParen(tk)
  ELSE IF c = SEMI THEN TkSemicolon(tk)
  ELSE IF c = LF THEN TkLineFeed(tk)
  ELSE IF c = QUOTE THEN TkQuoteOpen(tk)
  ELSE TkWordStart(tk, c)

\* inside an escape sequence (Symbol::from_slice_index)
TkEscape(tk, c) ==
  IF tk.e = 1
  THEN IF c < 32 \/ c = 127 THEN R([tk EXCEPT !.err = TRUE], <<>>)      \* is_ascii_control
       ELSE IF IsDigit(c) THEN R([tk EXCEPT !.e = 2, !.ev = (c - 48) * 100], <<>>)
       ELSE R(PushSym(tk, 256 + c), <<>>)
  ELSE IF ~IsDigit(c) THEN R([tk EXCEPT !.err = TRUE], <<>>)
  ELSE IF tk.e = 2 THEN R([tk EXCEPT !.e = 3, !.ev = @ + (c - 48) * 10], <<>>)
  ELSE LET v == tk.ev + (c - 48)
       IN IF v > 255 THEN R([tk EXCEPT !.err = TRUE], <<>>) ELSE R(PushSym(tk, 512 + v), <<>>)

TkWord(tk, c) ==
  IF IsWordOctet(c) THEN TkWordChar(tk, c)
  ELSE \* the token ends; the octet is then seen by next_item with has_space reset
       LET r == TkGap([tk EXCEPT !.m = "gap", !.sp = FALSE], c)
       IN R(r.tk, <<TokItem(tk, FALSE, c)>> \o r.items)

TkQuoted(tk, c) ==
  IF c = QUOTE THEN R([tk EXCEPT !.m = "gap", !.sp = FALSE], <<TokItem(tk, TRUE, QUOTE)>>)
  ELSE IF c = BSL THEN R([tk EXCEPT !.e = 1], <<>>)
  ELSE IF c = LF THEN R([PushSym(tk, c) EXCEPT !.line = @ + 1], <<>>)
  ELSE R(PushSym(tk, c), <<>>)

TkComment(tk, c) == IF c = LF THEN TkLineFeed(tk) ELSE R(tk, <<>>)

TkStep(tk0, c) ==
  LET tk == [tk0 EXCEPT !.pos = @ + 1]
  IN IF tk0.err THEN R(tk0, <<>>)
     ELSE IF tk.e > 0 THEN TkEscape(tk, c)
     ELSE IF tk.m = "gap" THEN TkGap(tk, c)
     ELSE IF tk.m = "cmt" THEN TkComment(tk, c)
     ELSE IF tk.m = "word" THEN TkWord(tk, c)
     ELSE TkQuoted(tk, c)

\* end of input inside a token (quoted or not) or inside an escape is an
\* error ("short buffer"); in a gap or a comment it is the end of the file
TkEofIsError(tk) == tk.err \/ tk.e > 0 \/ tk.m \in {"word", "quo"}

\* ------------------------------------------------------------- scanning
Unmodelled == [unmodelled |-> TRUE]

\* result of scanning one piece of an entry
ErrR == [r |-> "err"]
PanicR == [r |-> "panic"]
UnmodR == [r |-> "unmod"]

\* --- unsigned integers (impl_scan_unsigned!): plain decimal digits only;
\* an empty (quoted) token is 0.  max10 = MAX div 10, max1 = MAX mod 10.
\* Values from 2^31 up cannot be represented by TLC: "big".
RECURSIVE IntFrom(_, _, _, _, _, _)
IntFrom(syms, i, acc, max10, max1, dv) ==
  IF i > Len(syms) THEN [r |-> "ok", v |-> acc]
  ELSE LET s == syms[i] IN
    IF acc = -1 THEN ErrR                                  \* a digit after a "big" value: checked_mul fails
    ELSE IF acc > max10 THEN ErrR                          \* checked_mul overflow
    ELSE IF ~(IsPlain(s) /\ IsDigit(s)) THEN ErrR
    ELSE IF acc = max10 /\ (s - 48) > max1
         THEN (IF "D_scan_int_overflow" \in dv THEN PanicR ELSE ErrR)
    ELSE IF acc > 214748364 \/ (acc = 214748364 /\ (s - 48) > 7)
         THEN IntFrom(syms, i + 1, -1, max10, max1, dv)
    ELSE IntFrom(syms, i + 1, acc * 10 + (s - 48), max10, max1, dv)

ScanIntTok(tok, max10, max1, dv) ==
  LET r == IntFrom(tok.syms, 1, 0, max10, max1, dv)
  IN IF r.r = "ok" /\ r.v = -1 THEN UnmodR ELSE r
ScanU16(tok, dv) == ScanIntTok(tok, 6553, 5, dv)
ScanU32(tok, dv) == ScanIntTok(tok, 429496729, 5, dv)

\* --- Rust's str::parse::<uN>() on a decoded string: optional '+', at
\* least one digit, no overflow (never panics)
RECURSIVE ParseUFrom(_, _, _, _, _)
ParseUFrom(s, i, acc, max10, max1) ==
  IF i > Len(s) THEN [r |-> "ok", v |-> acc]
  ELSE IF ~IsDigit(s[i]) THEN ErrR
  ELSE IF acc = -1 \/ acc > max10 \/ (acc = max10 /\ (s[i] - 48) > max1) THEN ErrR
  ELSE IF acc > 214748364 \/ (acc = 214748364 /\ (s[i] - 48) > 7)
       THEN ParseUFrom(s, i + 1, -1, max10, max1)
  ELSE ParseUFrom(s, i + 1, acc * 10 + (s[i] - 48), max10, max1)
ParseU(s, max10, max1) ==
  LET t == IF Len(s) >= 1 /\ s[1] = 43 THEN Tail(s) ELSE s
  IN IF t = <<>> THEN ErrR ELSE ParseUFrom(t, 1, 0, max10, max1)

\* --- scan_ascii_str: every symbol must decode to printable ASCII
ScanAscii(tok) ==
  IF \A i \in 1..Len(tok.syms) : AsciiOk(tok.syms[i])
  THEN [r |-> "ok", s |-> [i \in 1..Len(tok.syms) |-> SymOct(tok.syms[i])]]
  ELSE ErrR

\* generated from /repo/src/base/iana/rtype.rs (89 mnemonics, upper case)
RtypeMnemonics == {
  <<<<65>>, 1>>, <<<<78,83>>, 2>>, <<<<77,68>>, 3>>,
  <<<<77,70>>, 4>>, <<<<67,78,65,77,69>>, 5>>, <<<<83,79,65>>, 6>>,
  <<<<77,66>>, 7>>, <<<<77,71>>, 8>>, <<<<77,82>>, 9>>,
  <<<<78,85,76,76>>, 10>>, <<<<87,75,83>>, 11>>, <<<<80,84,82>>, 12>>,
  <<<<72,73,78,70,79>>, 13>>, <<<<77,73,78,70,79>>, 14>>, <<<<77,88>>, 15>>,
  <<<<84,88,84>>, 16>>, <<<<82,80>>, 17>>, <<<<65,70,83,68,66>>, 18>>,
  <<<<88,50,53>>, 19>>, <<<<73,83,68,78>>, 20>>, <<<<82,84>>, 21>>,
  <<<<78,83,65,80>>, 22>>, <<<<78,83,65,80,80,84,82>>, 23>>, <<<<83,73,71>>, 24>>,
  <<<<75,69,89>>, 25>>, <<<<80,88>>, 26>>, <<<<71,80,79,83>>, 27>>,
  <<<<65,65,65,65>>, 28>>, <<<<76,79,67>>, 29>>, <<<<78,88,84>>, 30>>,
  <<<<69,73,68>>, 31>>, <<<<78,73,77,76,79,67>>, 32>>, <<<<83,82,86>>, 33>>,
  <<<<65,84,77,65>>, 34>>, <<<<78,65,80,84,82>>, 35>>, <<<<75,88>>, 36>>,
  <<<<67,69,82,84>>, 37>>, <<<<65,54>>, 38>>, <<<<68,78,65,77,69>>, 39>>,
  <<<<83,73,78,75>>, 40>>, <<<<79,80,84>>, 41>>, <<<<65,80,76>>, 42>>,
  <<<<68,83>>, 43>>, <<<<83,83,72,70,80>>, 44>>, <<<<73,80,83,69,67,75,69,89>>, 45>>,
  <<<<82,82,83,73,71>>, 46>>, <<<<78,83,69,67>>, 47>>, <<<<68,78,83,75,69,89>>, 48>>,
  <<<<68,72,67,73,68>>, 49>>, <<<<78,83,69,67,51>>, 50>>, <<<<78,83,69,67,51,80,65,82,65,77>>, 51>>,
  <<<<84,76,83,65>>, 52>>, <<<<83,77,73,77,69,65>>, 53>>, <<<<72,73,80>>, 55>>,
  <<<<78,73,78,70,79>>, 56>>, <<<<82,75,69,89>>, 57>>, <<<<84,65,76,73,78,75>>, 58>>,
  <<<<67,68,83>>, 59>>, <<<<67,68,78,83,75,69,89>>, 60>>, <<<<79,80,69,78,80,71,80,75,69,89>>, 61>>,
  <<<<67,83,89,78,67>>, 62>>, <<<<90,79,78,69,77,68>>, 63>>, <<<<83,86,67,66>>, 64>>,
  <<<<72,84,84,80,83>>, 65>>, <<<<83,80,70>>, 99>>, <<<<85,73,78,70,79>>, 100>>,
  <<<<85,73,68>>, 101>>, <<<<71,73,68>>, 102>>, <<<<85,78,83,80,69,67>>, 103>>,
  <<<<78,73,68>>, 104>>, <<<<76,51,50>>, 105>>, <<<<76,54,52>>, 106>>,
  <<<<76,80>>, 107>>, <<<<69,85,73,52,56>>, 108>>, <<<<69,85,73,54,52>>, 109>>,
  <<<<78,88,78,65,77,69>>, 128>>, <<<<84,75,69,89>>, 249>>, <<<<84,83,73,71>>, 250>>,
  <<<<73,88,70,82>>, 251>>, <<<<65,88,70,82>>, 252>>, <<<<77,65,73,76,66>>, 253>>,
  <<<<77,65,73,76,65>>, 254>>, <<<<65,78,89>>, 255>>, <<<<85,82,73>>, 256>>,
  <<<<67,65,65>>, 257>>, <<<<65,86,67>>, 258>>, <<<<68,79,65>>, 259>>,
  <<<<84,65>>, 32768>>, <<<<68,76,86>>, 32769>>
}
ClassMnemonics == { <<<<73,78>>, 1>>, <<<<67,72>>, 3>>, <<<<72,83>>, 4>>, <<<<78,79,78,69>>, 254>>, <<<<42>>, 255>> }

Lookup(table, u) == IF \E p \in table : p[1] = u
                    THEN [r |-> "ok", v |-> (CHOOSE p \in table : p[1] = u)[2]]
                    ELSE ErrR

\* Rtype::from_str / Class::from_str: mnemonic (any case) or PREFIXnnn
PrefixedOf(table, prefix, s) ==
  LET m == Lookup(table, UpperSeq(s))
      n == Len(prefix)
  IN IF m.r = "ok" THEN m
     ELSE IF Len(s) > n /\ UpperSeq(SubSeq(s, 1, n)) = prefix
          THEN ParseU(SubSeq(s, n + 1, Len(s)), 6553, 5)
          ELSE ErrR
RtypeOf(s) == PrefixedOf(RtypeMnemonics, <<84, 89, 80, 69>>, s)            \* "TYPE"
ClassOf(s) == PrefixedOf(ClassMnemonics, <<67, 76, 65, 83, 83>>, s)        \* "CLASS"
TtlOf(s)   == ParseU(s, 429496729, 5)                                      \* u32::from_str

\* --- scan_ctr: [TTL] [class] type | [class] [TTL] type, starting at token i.
\* A token that parses as a number is a TTL; a mnemonic is a type before it is a class.
CtrOk(c, t, ty, nx) == [r |-> "ok", class |-> c, ttl |-> t, rtype |-> ty, next |-> nx]
TtlVal(p) == IF p.v = -1 THEN UnmodR ELSE p        \* value >= 2^31: not representable here

Ctr(toks, i) ==
  IF i > Len(toks) THEN ErrR ELSE
  LET a == ScanAscii(toks[i]) IN
  IF a.r # "ok" THEN ErrR ELSE
  LET t1 == TtlOf(a.s)  y1 == RtypeOf(a.s)  c1 == ClassOf(a.s) IN
  IF t1.r = "ok" THEN
     IF t1.v = -1 THEN UnmodR
     ELSE IF i + 1 > Len(toks) THEN ErrR ELSE
     LET b == ScanAscii(toks[i + 1]) IN
     IF b.r # "ok" THEN ErrR ELSE
     LET y2 == RtypeOf(b.s)  c2 == ClassOf(b.s) IN
     IF y2.r = "ok" THEN CtrOk(-1, t1.v, y2.v, i + 2)
     ELSE IF c2.r = "ok" THEN
        IF i + 2 > Len(toks) THEN ErrR ELSE
        LET d == ScanAscii(toks[i + 2]) IN
        IF d.r # "ok" THEN ErrR ELSE
        LET y3 == RtypeOf(d.s) IN
        IF y3.r = "ok" THEN CtrOk(c2.v, t1.v, y3.v, i + 3) ELSE ErrR
     ELSE ErrR
  ELSE IF y1.r = "ok" THEN CtrOk(-1, -1, y1.v, i + 1)
  ELSE IF c1.r = "ok" THEN
     IF i + 1 > Len(toks) THEN ErrR ELSE
     LET b == ScanAscii(toks[i + 1]) IN
     IF b.r # "ok" THEN ErrR ELSE
     LET t2 == TtlOf(b.s)  y2 == RtypeOf(b.s) IN
     IF t2.r = "ok" THEN
        IF t2.v = -1 THEN UnmodR
        ELSE IF i + 2 > Len(toks) THEN ErrR ELSE
        LET d == ScanAscii(toks[i + 2]) IN
        IF d.r # "ok" THEN ErrR ELSE
        LET y3 == RtypeOf(d.s) IN
        IF y3.r = "ok" THEN CtrOk(c1.v, t2.v, y3.v, i + 3) ELSE ErrR
     ELSE IF y2.r = "ok" THEN CtrOk(c1.v, -1, y2.v, i + 2)
     ELSE ErrR
  ELSE ErrR

\* --- scan_name / convert_label.  Names are flat wire octets; the origin is
\* the wire form of an absolute name, <<>> when there is none.
RECURSIVE SplitDots(_, _, _)
SplitDots(syms, i, cur) ==
  IF i > Len(syms) THEN <<cur>>
  ELSE IF syms[i] = DOT THEN <<cur>> \o SplitDots(syms, i + 1, <<>>)
  ELSE SplitDots(syms, i + 1, Append(cur, syms[i]))

LabelWire(p) == <<Len(p)>> \o [i \in 1..Len(p) |-> SymOct(p[i])]

HasRawDel(syms) == \E i \in 1..Len(syms) : syms[i] = 127
ScanName(tok, origin, dv) ==
  LET syms == tok.syms
      P == SplitDots(syms, 1, <<>>)
      abs == Len(P) >= 2 /\ P[Len(P)] = <<>>
      labels == IF abs THEN SubSeq(P, 1, Len(P) - 1) ELSE P
  IN IF syms = <<>> THEN (IF origin = <<>> THEN ErrR ELSE [r |-> "ok", n |-> origin])
     ELSE IF syms = <<DOT>> THEN [r |-> "ok", n |-> <<0>>]
     ELSE IF P[1] = <<>> THEN ErrR                                    \* leading dot
     ELSE IF HasRawDel(syms) /\ "D_del_fast_path" \in dv THEN UnmodR
     ELSE IF \E i \in 1..Len(syms) : ~OctetOk(syms[i]) THEN ErrR
     ELSE IF \E i \in 1..Len(labels) : Len(labels[i]) > 63 THEN ErrR
     ELSE IF (\E i \in 1..Len(labels) : labels[i] = <<>>) /\ "D_scan_name_empty_label" \notin dv
          THEN ErrR                                                   \* empty interior label
     ELSE IF ~abs /\ origin = <<>> THEN ErrR                          \* missing origin
     ELSE LET full == Concat([i \in 1..Len(labels) |-> LabelWire(labels[i])])
                      \o (IF abs THEN <<0>> ELSE origin)
          IN IF Len(full) > 255 THEN ErrR ELSE [r |-> "ok", n |-> full]

\* --- character strings (scan_octets + CharStr::from_octets, convert_charstr)
ScanCharStr(tok, dv) ==
  IF HasRawDel(tok.syms) /\ "D_del_fast_path" \in dv THEN UnmodR
  ELSE IF \E i \in 1..Len(tok.syms) : ~OctetOk(tok.syms[i]) THEN ErrR
  ELSE IF Len(tok.syms) > 255 THEN ErrR
  ELSE [r |-> "ok", o |-> LabelWire(tok.syms)]

\* --- scan_string (control word, $INCLUDE path): characters, not octets
ScanString(tok, dv) ==
  IF \E i \in 1..Len(tok.syms) : IsPlain(tok.syms[i]) /\ tok.syms[i] >= 128 THEN UnmodR  \* UTF-8: not modelled
  ELSE IF \E i \in 1..Len(tok.syms) :
            ~IsPlain(tok.syms[i]) /\ ~(IsSimple(tok.syms[i]) /\ SymOct(tok.syms[i]) >= 32 /\ SymOct(tok.syms[i]) < 127)
       THEN ErrR
  ELSE [r |-> "ok", s |-> [i \in 1..Len(tok.syms) |-> SymOct(tok.syms[i])]
                          \o (IF tok.q /\ "D_scan_string_quote" \in dv THEN <<QUOTE>> ELSE <<>>)]

\* --- record data.  mode: "lf" the entry ended with a line feed, "eof" the
\* input ended in a gap after these tokens, "cut" the tokenizer failed after
\* these tokens.  Results: [r |-> "ok", rd |-> octets] / err / panic / unmod /
\* "swallow" (D_charstr_entry_no_token: the line feed is read over).
RdOk(o) == [r |-> "ok", rd |-> o]

\* TXT: scan_charstr_entry
RECURSIVE TxtFrom(_, _, _, _)
TxtFrom(toks, i, acc, dv) ==
  IF i > Len(toks) THEN RdOk(acc)
  ELSE LET c == ScanCharStr(toks[i], dv)
       IN IF c.r # "ok" THEN c ELSE TxtFrom(toks, i + 1, acc \o c.o, dv)
RdTxt(toks, i, mode, dv) ==
  LET body == TxtFrom(toks, i, <<>>, dv) IN
  IF body.r # "ok" THEN body
  ELSE IF "D_charstr_entry_no_token" \in dv
       THEN IF mode = "eof" THEN PanicR
            ELSE IF mode = "cut" THEN ErrR
            ELSE IF i > Len(toks) THEN [r |-> "swallow"] ELSE body
       ELSE IF mode # "lf" \/ i > Len(toks) THEN ErrR ELSE body

\* exactly one name (NS, CNAME, PTR, DNAME, ...)
RdName(toks, i, mode, origin, dv) ==
  IF i > Len(toks) THEN ErrR
  ELSE LET n == ScanName(toks[i], origin, dv)
       IN IF n.r # "ok" THEN n
          ELSE IF mode # "lf" \/ i < Len(toks) THEN ErrR ELSE RdOk(n.n)

\* MX: u16 preference, name
RdMx(toks, i, mode, origin, dv) ==
  IF i > Len(toks) THEN ErrR
  ELSE LET p == ScanU16(toks[i], dv)
       IN IF p.r # "ok" THEN p
          ELSE LET n == RdName(toks, i + 1, mode, origin, dv)
               IN IF n.r # "ok" THEN n ELSE RdOk(EncU16(p.v) \o n.rd)

\* HINFO: two character strings
RdHinfo(toks, i, mode, dv) ==
  IF i + 1 > Len(toks) THEN ErrR
  ELSE LET a == ScanCharStr(toks[i], dv)  b == ScanCharStr(toks[i + 1], dv)
       IN IF a.r # "ok" THEN a ELSE IF b.r # "ok" THEN b
          ELSE IF mode # "lf" \/ i + 1 < Len(toks) THEN ErrR ELSE RdOk(a.o \o b.o)

\* RFC 3597 generic form: \# <u16 length> <hex ...>
HexVal(s) == LET c == SymOct(s) IN
  IF IsDigit(c) THEN c - 48
  ELSE IF c >= 65 /\ c <= 70 THEN c - 55
  ELSE IF c >= 97 /\ c <= 102 THEN c - 87 ELSE -1
HexOk(s) == (IsPlain(s) \/ IsSimple(s)) /\ s % 256 < 128 /\ HexVal(s) >= 0
RdGeneric(toks, i, mode, dv) ==
  IF i > Len(toks) THEN ErrR
  ELSE LET n == ScanU16(toks[i], dv) IN
    IF n.r # "ok" THEN n
    ELSE LET digits == Concat([k \in 1..(Len(toks) - i) |-> toks[i + k].syms]) IN
      IF \E k \in 1..Len(digits) : ~HexOk(digits[k]) THEN ErrR
      ELSE IF mode # "lf" THEN ErrR
      ELSE IF Len(digits) % 2 # 0 \/ Len(digits) \div 2 # n.v THEN ErrR
      ELSE RdOk([k \in 1..(Len(digits) \div 2) |-> 16 * HexVal(digits[2 * k - 1]) + HexVal(digits[2 * k])])

\* --- SVCB / HTTPS: priority, target, SvcParams (SvcParams::scan with
\* scan_svcb_octets).  A parameter is one token, or a token with a quoted
\* token glued on when that follows *directly* (no white space):
\* key="value".  Modelled: alpn (ids without escapes), port, keyNNNNN with
\* N >= 10 (values without backslash); other keys: the spec abstains.
TokOctets(tok) == [i \in 1..Len(tok.syms) |-> SymOct(tok.syms[i])]
\* a quoted token that scan_svcb_octets reads entirely on its fast path
\* returns before the glue test
FastQuoted(tok) == tok.q /\ \A i \in 1..Len(tok.syms) : IsPlain(tok.syms[i]) /\ tok.syms[i] >= 33 /\ tok.syms[i] <= 127
Glued(toks, j) == j < Len(toks) /\ toks[j + 1].q /\ ~toks[j + 1].sp /\ ~FastQuoted(toks[j])

KeyCharOk(c, dv) ==   \* a-z, 0-9, '-'; the code's half-open ranges leave out 'z' and '9'
  \/ (c >= 97 /\ c <= (IF "D_svcb_key_charset" \in dv THEN 121 ELSE 122))
  \/ (c >= 48 /\ c <= (IF "D_svcb_key_charset" \in dv THEN 56 ELSE 57))
  \/ c = 45
RECURSIVE IndexOf(_, _, _)
IndexOf(s, c, i) == IF i > Len(s) THEN 0 ELSE IF s[i] = c THEN i ELSE IndexOf(s, c, i + 1)
RECURSIVE SplitOn(_, _, _, _)
SplitOn(s, c, i, cur) == IF i > Len(s) THEN <<cur>>
                         ELSE IF s[i] = c THEN <<cur>> \o SplitOn(s, c, i + 1, <<>>)
                         ELSE SplitOn(s, c, i + 1, Append(cur, s[i]))
K_ALPN == <<97, 108, 112, 110>>  K_PORT == <<112, 111, 114, 116>>  K_KEY == <<107, 101, 121>>

\* one parameter from its octets: [r |-> "ok", k |-> key number, v |-> value octets] / err / unmod
SvcParam(o, dv) ==
  LET eq == IndexOf(o, 61, 1)
      key == IF eq = 0 THEN o ELSE SubSeq(o, 1, eq - 1)
      val == IF eq = 0 THEN <<>> ELSE SubSeq(o, eq + 1, Len(o))
  IN IF o = <<>> THEN ErrR
     ELSE IF \E i \in 1..Len(key) : ~KeyCharOk(key[i], dv) THEN ErrR
     ELSE IF \E i \in 1..Len(val) : val[i] = BSL \/ val[i] < 33 \/ val[i] > 126 THEN UnmodR
     ELSE IF key = K_PORT THEN
        (IF val = <<>> \/ \E i \in 1..Len(val) : ~IsDigit(val[i]) THEN UnmodR
         ELSE LET p == ParseU(val, 6553, 5) IN IF p.r = "ok" THEN [r |-> "ok", k |-> 3, v |-> EncU16(p.v)] ELSE ErrR)
     ELSE IF key = K_ALPN THEN
        LET ids == SplitOn(val, 44, 1, <<>>)
        IN IF \E i \in 1..Len(ids) : ids[i] = <<>> \/ Len(ids[i]) > 255 THEN UnmodR
           ELSE [r |-> "ok", k |-> 1, v |-> Concat([i \in 1..Len(ids) |-> <<Len(ids[i])>> \o ids[i]])]
     ELSE IF Len(key) > 3 /\ SubSeq(key, 1, 3) = K_KEY /\ (\A i \in 4..Len(key) : IsDigit(key[i])) /\ key[4] # 48
        THEN LET n == ParseU(SubSeq(key, 4, Len(key)), 6553, 5)
             IN IF n.r # "ok" THEN ErrR ELSE IF n.v < 10 THEN UnmodR ELSE [r |-> "ok", k |-> n.v, v |-> val]
     ELSE UnmodR

RECURSIVE SvcParams(_, _, _, _)
SvcParams(toks, j, acc, dv) ==   \* acc: sequence of [k, v] in reading order
  IF j > Len(toks) THEN [r |-> "ok", ps |-> acc]
  ELSE LET g == Glued(toks, j)
           syms == toks[j].syms \o (IF g THEN toks[j + 1].syms ELSE <<>>)
           o == TokOctets(toks[j]) \o (IF g THEN TokOctets(toks[j + 1]) ELSE <<>>)
       IN IF HasRawDel(syms) /\ "D_del_fast_path" \in dv THEN UnmodR
          ELSE IF \E i \in 1..Len(syms) : ~OctetOk(syms[i]) THEN ErrR
          ELSE LET p == SvcParam(o, dv)
               IN IF p.r # "ok" THEN p
                  ELSE IF \E i \in 1..Len(acc) : acc[i].k = p.k THEN ErrR          \* duplicate key
                  ELSE SvcParams(toks, IF g THEN j + 2 ELSE j + 1, Append(acc, [k |-> p.k, v |-> p.v]), dv)

RECURSIVE SortedParams(_)
SortedParams(ps) ==   \* wire form, ascending key
  IF ps = <<>> THEN <<>>
  ELSE LET m == CHOOSE i \in 1..Len(ps) : \A j \in 1..Len(ps) : ps[i].k <= ps[j].k
           rest == [i \in 1..(Len(ps) - 1) |-> IF i < m THEN ps[i] ELSE ps[i + 1]]
       IN EncU16(ps[m].k) \o EncU16(Len(ps[m].v)) \o ps[m].v \o SortedParams(rest)

RdSvcb(toks, i, mode, origin, dv) ==
  IF i + 1 > Len(toks) THEN ErrR
  ELSE LET p == ScanU16(toks[i], dv) IN
    IF p.r # "ok" THEN p
    ELSE LET n == ScanName(toks[i + 1], origin, dv) IN
      IF n.r # "ok" THEN n
      ELSE LET ps == SvcParams(toks, i + 2, <<>>, dv) IN
        IF ps.r # "ok" THEN ps
        ELSE IF mode # "lf" THEN ErrR
        ELSE IF p.v = 0 /\ ps.ps # <<>> THEN UnmodR
        ELSE RdOk(EncU16(p.v) \o n.n \o SortedParams(ps.ps))

\* --- symbol converters (Scanner::convert_entry / convert_token with the
\* base64 / base16 / base32hex SymbolConverter, Nsec3Salt's converter).  A
\* symbol is handed over as a character (Symbol::into_char): a plain
\* character or a simple escape of printable ASCII; a decimal escape is not a
\* character.  Characters above U+007F (and octets that are not UTF-8 at all,
\* which the tokenizer rejects) belong to none of the alphabets: -1.
CharOf(s) == IF IsPlain(s) THEN (IF s < 128 THEN s ELSE -1)
             ELSE IF IsSimple(s) /\ SymOct(s) >= 32 /\ SymOct(s) < 127 THEN SymOct(s) ELSE -1
\* all symbols of the tokens from index i to the end of the entry
EntrySyms(toks, i) == IF i > Len(toks) THEN <<>> ELSE Concat([k \in 1..(Len(toks) - i + 1) |-> toks[i + k - 1].syms])
DataOk(o) == [r |-> "ok", o |-> o]

\* RFC 4648 4: A-Z a-z 0-9 + /, '=' padding only as the third / fourth
\* character of the last group, nothing after a padded group, no partial group
B64Val(c) == IF c >= 65 /\ c <= 90 THEN c - 65 ELSE IF c >= 97 /\ c <= 122 THEN c - 71
             ELSE IF c >= 48 /\ c <= 57 THEN c + 4 ELSE IF c = 43 THEN 62 ELSE IF c = 47 THEN 63 ELSE -1
B64PAD == 64
RECURSIVE B64From(_, _, _, _, _)
B64From(syms, i, grp, out, done) ==
  IF i > Len(syms) THEN (IF grp # <<>> THEN ErrR ELSE DataOk(out))
  ELSE IF done THEN ErrR                                             \* trailing data
  ELSE LET c == CharOf(syms[i])
           v == IF c = 61 THEN (IF Len(grp) < 2 THEN -1 ELSE B64PAD) ELSE IF c < 0 THEN -1 ELSE B64Val(c)
           g == Append(grp, v)
       IN IF v = -1 THEN ErrR
          ELSE IF Len(g) < 4 THEN B64From(syms, i + 1, g, out, FALSE)
          ELSE LET o1 == (g[1] * 4 + g[2] \div 16) % 256
                   o2 == ((g[2] % 16) * 16 + g[3] \div 4) % 256
                   o3 == ((g[3] % 4) * 64 + g[4]) % 256
               IN IF g[3] = B64PAD
                  THEN (IF g[4] = B64PAD THEN B64From(syms, i + 1, <<>>, Append(out, o1), TRUE) ELSE ErrR)
                  ELSE IF g[4] = B64PAD THEN B64From(syms, i + 1, <<>>, out \o <<o1, o2>>, TRUE)
                  ELSE B64From(syms, i + 1, <<>>, out \o <<o1, o2, o3>>, FALSE)
B64Decode(syms) == B64From(syms, 1, <<>>, <<>>, FALSE)

\* base16: an even number of hex digits of either case
HexDigit(s) == LET c == CharOf(s) IN
  IF c < 0 THEN -1 ELSE IF IsDigit(c) THEN c - 48
  ELSE IF c >= 65 /\ c <= 70 THEN c - 55 ELSE IF c >= 97 /\ c <= 102 THEN c - 87 ELSE -1
HexDecode(syms) ==
  IF \E k \in 1..Len(syms) : HexDigit(syms[k]) < 0 THEN ErrR
  ELSE IF Len(syms) % 2 # 0 THEN ErrR
  ELSE DataOk([k \in 1..(Len(syms) \div 2) |-> 16 * HexDigit(syms[2 * k - 1]) + HexDigit(syms[2 * k])])

\* base32hex without padding (RFC 5155 3.3): 0-9 A-V of either case; 8
\* characters give 5 octets; a last group of 2 / 4 / 5 / 7 characters gives
\* 1 / 2 / 3 / 4 octets, one of 1 / 3 / 6 is an error
B32Val(c) == IF c < 0 THEN -1 ELSE IF IsDigit(c) THEN c - 48
             ELSE IF c >= 65 /\ c <= 86 THEN c - 55 ELSE IF c >= 97 /\ c <= 118 THEN c - 87 ELSE -1
B32Group(g) ==   \* g: 8 values (missing ones 0)
  << (g[1] * 8 + g[2] \div 4) % 256,
     ((g[2] % 4) * 64 + g[3] * 2 + g[4] \div 16) % 256,
     ((g[4] % 16) * 16 + g[5] \div 2) % 256,
     ((g[5] % 2) * 128 + g[6] * 4 + g[7] \div 8) % 256,
     ((g[7] % 8) * 32 + g[8]) % 256 >>
RECURSIVE B32From(_, _, _)
B32From(vals, i, out) ==
  LET rest == Len(vals) - i + 1 IN
  IF rest = 0 THEN DataOk(out)
  ELSE IF rest >= 8 THEN B32From(vals, i + 8, out \o B32Group(SubSeq(vals, i, i + 7)))
  ELSE IF rest \in {1, 3, 6} THEN ErrR
  ELSE LET g == [k \in 1..8 |-> IF k <= rest THEN vals[i + k - 1] ELSE 0]
           n == CASE rest = 2 -> 1 [] rest = 4 -> 2 [] rest = 5 -> 3 [] rest = 7 -> 4
       IN DataOk(out \o SubSeq(B32Group(g), 1, n))
B32Decode(syms) ==
  LET vals == [k \in 1..Len(syms) |-> B32Val(CharOf(syms[k]))] IN
  IF \E k \in 1..Len(vals) : vals[k] < 0 THEN ErrR ELSE B32From(vals, 1, <<>>)

\* u8 by impl_scan_unsigned! (digit symbols) and by str::parse (the iana
\* types that only have numbers: algorithms, digest types, TLSA fields)
ScanU8(tok, dv) == ScanIntTok(tok, 25, 5, dv)
ScanU8Str(tok) == LET a == ScanAscii(tok) IN IF a.r # "ok" THEN ErrR ELSE ParseU(a.s, 25, 5)

\* the fixed fields in front (kinds "u8" / "u16" / "u32" / "str8"), then the
\* rest of the entry through a converter
FieldOf(kind, tok, dv) ==
  CASE kind = "u8" -> ScanU8(tok, dv) [] kind = "u16" -> ScanU16(tok, dv)
    [] kind = "u32" -> ScanU32(tok, dv) [] kind = "str8" -> ScanU8Str(tok)
FieldEnc(kind, v) == CASE kind \in {"u8", "str8"} -> <<v>> [] kind = "u16" -> EncU16(v) [] kind = "u32" -> EncU32(v)
RECURSIVE FieldsFrom(_, _, _, _, _, _)
FieldsFrom(kinds, k, toks, i, acc, dv) ==
  IF k > Len(kinds) THEN [r |-> "ok", o |-> acc, next |-> i]
  ELSE IF i > Len(toks) THEN ErrR
  ELSE LET f == FieldOf(kinds[k], toks[i], dv)
       IN IF f.r # "ok" THEN f ELSE FieldsFrom(kinds, k + 1, toks, i + 1, acc \o FieldEnc(kinds[k], f.v), dv)

\* convert_entry: no token at all is fine when the line ends there
RdFieldsThen(kinds, conv, toks, i, mode, dv) ==
  LET f == FieldsFrom(kinds, 1, toks, i, <<>>, dv) IN
  IF f.r # "ok" THEN f
  ELSE LET syms == EntrySyms(toks, f.next)
           d == IF conv = "b64" THEN B64Decode(syms) ELSE HexDecode(syms)
       IN IF d.r # "ok" THEN d
          ELSE IF mode # "lf" THEN ErrR
          ELSE IF Len(f.o) + Len(d.o) > 65535 THEN UnmodR      \* only some of the types check the length
          ELSE RdOk(f.o \o d.o)

\* NSEC3 salt (convert_token): "-" is the empty salt, otherwise hex digits
SaltOf(tok) ==
  LET s == tok.syms IN
  IF s # <<>> /\ CharOf(s[1]) = 45 THEN (IF Len(s) = 1 THEN DataOk(<<>>) ELSE ErrR)
  ELSE LET h == HexDecode(s) IN IF h.r # "ok" THEN h ELSE IF Len(h.o) > 255 THEN ErrR ELSE h

\* type bitmap (RtypeBitmap::scan): the remaining tokens are type mnemonics
RECURSIVE WindowsFrom(_, _)
WindowsFrom(types, w) ==
  IF w > 255 THEN <<>>
  ELSE LET low == {t % 256 : t \in {x \in types : x \div 256 = w}} IN
    IF low = {} THEN WindowsFrom(types, w + 1)
    ELSE LET top == CHOOSE m \in low : \A x \in low : x <= m
             n == top \div 8 + 1
             Bit(k, b) == IF ((k - 1) * 8 + b) \in low THEN 2 ^ (7 - b) ELSE 0
         IN <<w, n>> \o [k \in 1..n |-> Bit(k, 0) + Bit(k, 1) + Bit(k, 2) + Bit(k, 3) + Bit(k, 4) + Bit(k, 5) + Bit(k, 6) + Bit(k, 7)]
            \o WindowsFrom(types, w + 1)
RdBitmap(toks, i, mode) ==
  LET n == Len(toks) - i + 1
      a == [k \in 1..n |-> ScanAscii(toks[i + k - 1])] IN
  IF \E k \in 1..n : a[k].r # "ok" THEN ErrR
  ELSE LET y == [k \in 1..n |-> RtypeOf(a[k].s)] IN
    IF \E k \in 1..n : y[k].r # "ok" THEN ErrR
    ELSE IF mode # "lf" THEN ErrR
    ELSE RdOk(WindowsFrom({y[k].v : k \in 1..n}, 0))

\* NSEC: next name, bitmap
RdNsec(toks, i, mode, origin, dv) ==
  IF i > Len(toks) THEN ErrR
  ELSE LET n == ScanName(toks[i], origin, dv) IN
    IF n.r # "ok" THEN n
    ELSE LET b == RdBitmap(toks, i + 1, mode) IN IF b.r # "ok" THEN b ELSE RdOk(n.n \o b.rd)

\* NSEC3PARAM: algorithm, flags, iterations, salt; NSEC3: the same, then the
\* base32hex owner hash (at most 255 octets) and the bitmap
RdNsec3(full, toks, i, mode, dv) ==
  LET f == FieldsFrom(<<"str8", "u8", "u16">>, 1, toks, i, <<>>, dv) IN
  IF f.r # "ok" THEN f
  ELSE IF f.next > Len(toks) THEN ErrR
  ELSE LET s == SaltOf(toks[f.next]) IN
    IF s.r # "ok" THEN s
    ELSE LET head == f.o \o <<Len(s.o)>> \o s.o IN
      IF ~full THEN (IF mode # "lf" \/ f.next < Len(toks) THEN ErrR ELSE RdOk(head))
      ELSE IF f.next + 1 > Len(toks) THEN ErrR
      ELSE LET h == B32Decode(toks[f.next + 1].syms) IN
        IF h.r # "ok" THEN h
        ELSE IF Len(h.o) > 255 THEN ErrR
        ELSE LET b == RdBitmap(toks, f.next + 2, mode) IN
          IF b.r # "ok" THEN b ELSE RdOk(head \o <<Len(h.o)>> \o h.o \o b.rd)

\* SOA: two names, serial, four TTL values
RdSoa(toks, i, mode, origin, dv) ==
  IF i + 1 > Len(toks) THEN ErrR
  ELSE LET m == ScanName(toks[i], origin, dv) IN
    IF m.r # "ok" THEN m
    ELSE LET rn == ScanName(toks[i + 1], origin, dv) IN
      IF rn.r # "ok" THEN rn
      ELSE LET f == FieldsFrom(<<"u32", "u32", "u32", "u32", "u32">>, 1, toks, i + 2, <<>>, dv) IN
        IF f.r # "ok" THEN f
        ELSE IF mode # "lf" \/ f.next <= Len(toks) THEN ErrR
        ELSE RdOk(m.n \o rn.n \o f.o)

IsMarker(tok) == ~tok.q /\ tok.syms = <<256 + HASH>>
NameTypes == {2, 5, 12, 39}          \* NS CNAME PTR DNAME (one name each)
B64Types == {48, 60, 61}            \* DNSKEY CDNSKEY OPENPGPKEY
HexTypes == {43, 59, 52}            \* DS CDS TLSA
ModelledTypes == NameTypes \cup {6, 13, 15, 16, 64, 65, 47, 50, 51} \cup B64Types \cup HexTypes

Rdata(rtype, toks, i, mode, origin, dv) ==
  IF i <= Len(toks) /\ IsMarker(toks[i])
  THEN IF "D_marker_skips_delimiter" \in dv /\ toks[i].nx \in {LF, LPAR, RPAR, SEMI, QUOTE}
       THEN UnmodR      \* skip_unknown_marker also skips the octet after "\#", whatever it is
       ELSE RdGeneric(toks, i + 1, mode, dv)
  ELSE IF rtype = 16 THEN RdTxt(toks, i, mode, dv)
  ELSE IF rtype \in NameTypes THEN RdName(toks, i, mode, origin, dv)
  ELSE IF rtype = 15 THEN RdMx(toks, i, mode, origin, dv)
  ELSE IF rtype = 13 THEN RdHinfo(toks, i, mode, dv)
  ELSE IF rtype \in {64, 65} THEN RdSvcb(toks, i, mode, origin, dv)
  ELSE IF rtype = 61 THEN RdFieldsThen(<<>>, "b64", toks, i, mode, dv)
  ELSE IF rtype \in {48, 60} THEN RdFieldsThen(<<"u16", "u8", "str8">>, "b64", toks, i, mode, dv)
  ELSE IF rtype \in {43, 59} THEN RdFieldsThen(<<"u16", "str8", "str8">>, "hex", toks, i, mode, dv)
  ELSE IF rtype = 52 THEN RdFieldsThen(<<"str8", "str8", "str8">>, "hex", toks, i, mode, dv)
  ELSE IF rtype = 47 THEN RdNsec(toks, i, mode, origin, dv)
  ELSE IF rtype = 50 THEN RdNsec3(TRUE, toks, i, mode, dv)
  ELSE IF rtype = 51 THEN RdNsec3(FALSE, toks, i, mode, dv)
  ELSE IF rtype = 6 THEN RdSoa(toks, i, mode, origin, dv)
  ELSE UnmodR

\* ------------------------------------------------------ entry machine
\* origin/lastOwner: wire octets, <<>> = none; dollarTtl/lastClass: -1 = none
\* requireValid: FALSE after Zonefile::allow_invalid()
EnInitV(origin, defaultClass, rv) ==
  [origin |-> origin, lastOwner |-> <<>>, lastTtl |-> 3600, dollarTtl |-> -1,
   lastClass |-> defaultClass, requireValid |-> rv, toks |-> <<>>, out |-> <<>>, st |-> "run",
   sw |-> -1]
EnInit(origin, defaultClass) == EnInitV(origin, defaultClass, TRUE)

Stop(en, st) == [en EXCEPT !.st = st, !.toks = <<>>]
StopOf(en, r) == Stop(en, IF r.r = "panic" THEN "panic" ELSE IF r.r = "unmod" THEN "unmod" ELSE "err")

RecordEntry(owner, class, ttl, rtype, rd) ==
  [owner |-> owner, class |-> class, ttl |-> ttl, rtype |-> rtype, rdata |-> rd]

\* scan_owner_record: tokens from index i are [TTL] [class] type rdata...
OwnerRecord(en, owner, newOwner, i, mode, dv) ==
  LET toks == en.toks
      c == Ctr(toks, i) IN
  IF c.r # "ok" THEN StopOf(en, c)
  ELSE IF c.class # -1 /\ en.lastClass # -1 /\ en.requireValid /\ c.class # en.lastClass
       THEN Stop(en, "err")                                        \* different class
  ELSE IF c.class = -1 /\ en.lastClass = -1 THEN Stop(en, "err")   \* missing last class
  ELSE
    LET class == IF c.class # -1 THEN c.class ELSE en.lastClass
        ttl == IF c.ttl # -1 THEN c.ttl
               ELSE IF en.dollarTtl # -1 THEN en.dollarTtl ELSE en.lastTtl
        rd == Rdata(c.rtype, toks, c.next, mode, en.origin, dv)
        en1 == [en EXCEPT !.lastOwner = IF newOwner THEN owner ELSE @,
                          !.lastClass = IF @ = -1 THEN class ELSE @,
                          !.lastTtl = IF c.ttl # -1 THEN c.ttl ELSE @]
    IN IF rd.r = "swallow"
       THEN [en EXCEPT !.toks = Append(@, [k |-> "tok", q |-> TRUE, sp |-> TRUE, syms |-> <<>>, p0 |-> 0, nx |-> SP])]
       ELSE IF rd.r # "ok" THEN StopOf(en, rd)
       ELSE [en1 EXCEPT !.toks = <<>>,
                        !.out = Append(@, RecordEntry(owner, class, ttl, c.rtype, rd.rd))]

\* one operator per entry shape --------------------------------------
Blank(en) == en

RecordIndented(en, mode, dv) ==
  IF en.lastOwner = <<>> THEN Stop(en, "err")                      \* missing last owner
  ELSE OwnerRecord(en, en.lastOwner, FALSE, 1, mode, dv)

RecordAt(en, mode, dv) ==
  IF en.origin = <<>> THEN Stop(en, "err")                         \* missing origin
  ELSE OwnerRecord(en, en.origin, TRUE, 2, mode, dv)

RecordExplicitOwner(en, mode, dv) ==
  LET n == ScanName(en.toks[1], en.origin, dv)
  IN IF n.r # "ok" THEN StopOf(en, n) ELSE OwnerRecord(en, n.n, TRUE, 2, mode, dv)

Origin(en, mode, dv) ==
  IF Len(en.toks) < 2 THEN Stop(en, "err")
  ELSE LET n == ScanName(en.toks[2], en.origin, dv)
       IN IF n.r # "ok" THEN StopOf(en, n)
          ELSE IF mode # "lf" \/ Len(en.toks) > 2 THEN Stop(en, "err")
          ELSE [en EXCEPT !.origin = n.n, !.toks = <<>>]

Ttl(en, mode, dv) ==
  IF Len(en.toks) < 2 THEN Stop(en, "err")
  ELSE LET t == ScanU32(en.toks[2], dv)
       IN IF t.r # "ok" THEN StopOf(en, t)
          ELSE IF mode # "lf" \/ Len(en.toks) > 2 THEN Stop(en, "err")
          ELSE [en EXCEPT !.dollarTtl = t.v, !.toks = <<>>]

Include(en, mode, dv) ==
  IF Len(en.toks) < 2 THEN Stop(en, "err")
  ELSE LET p == ScanString(en.toks[2], dv) IN
    IF p.r # "ok" THEN StopOf(en, p)
    ELSE IF Len(en.toks) = 2
         THEN IF mode # "lf" THEN Stop(en, "err")
              ELSE [en EXCEPT !.toks = <<>>, !.out = Append(@, [include |-> p.s, origin |-> <<>>])]
    ELSE IF /\ "D_scan_string_quote" \in dv /\ en.toks[2].q
            /\ \A i \in 1..Len(en.toks[2].syms) : IsPlain(en.toks[2].syms[i])
            /\ en.toks[3].p0 = en.toks[2].p0 + Len(en.toks[2].syms) + 2
         THEN Stop(en, "panic")      \* the quote was split off with the path: "missing token prefix space"
    ELSE LET n == ScanName(en.toks[3], en.origin, dv) IN
      IF n.r # "ok" THEN StopOf(en, n)
      ELSE IF mode # "lf" \/ Len(en.toks) > 3 THEN Stop(en, "err")
      ELSE [en EXCEPT !.toks = <<>>, !.out = Append(@, [include |-> p.s, origin |-> n.n])]

W_ORIGIN  == <<36, 79, 82, 73, 71, 73, 78>>
W_INCLUDE == <<36, 73, 78, 67, 76, 85, 68, 69>>
W_TTL     == <<36, 84, 84, 76>>

Control(en, mode, dv) ==
  LET w == ScanString(en.toks[1], dv) IN
  IF w.r # "ok" THEN StopOf(en, w)
  ELSE LET u == UpperSeq(w.s) IN
    IF u = W_ORIGIN THEN Origin(en, mode, dv)
    ELSE IF u = W_INCLUDE THEN Include(en, mode, dv)
    ELSE IF u = W_TTL THEN Ttl(en, mode, dv)
    ELSE Stop(en, "err")                                           \* unknown control

\* _scan_entry on the buffered tokens of one entry (en.toks non-empty)
EntryShape(en) ==
  LET t == en.toks[1] IN
  IF t.sp THEN "indented"
  ELSE IF Len(t.syms) >= 1 /\ t.syms[1] = DOLLAR THEN "control"
  ELSE IF t.syms = <<AT>> THEN "at"
  ELSE "owner"

ScanEntry(en, mode, dv) ==
  LET s == EntryShape(en) IN
  IF s = "indented" THEN RecordIndented(en, mode, dv)
  ELSE IF s = "control" THEN Control(en, mode, dv)
  ELSE IF s = "at" THEN RecordAt(en, mode, dv)
  ELSE RecordExplicitOwner(en, mode, dv)

\* ------------------------------------------------------------- reader
RdInitV(origin, defaultClass, rv) == [tk |-> TkInit, en |-> EnInitV(origin, defaultClass, rv)]
RdInit(origin, defaultClass) == RdInitV(origin, defaultClass, TRUE)

\* en.sw: under D_charstr_entry_no_token a TXT entry without data reads over
\* its line feed (position sw).  If an unquoted token starts right there the
\* code's write cursor is ahead of its read cursor and it consumes what it
\* has just written -- memory corruption this spec does not predict.
EnItem(en, item, dv) ==
  IF en.st # "run" THEN en
  ELSE IF item.k = "tok"
       THEN IF en.sw # -1 /\ ~item.q /\ item.p0 = en.sw + 1 THEN Stop(en, "unmod")
            ELSE [en EXCEPT !.toks = Append(@, item), !.sw = -1]
  ELSE IF en.toks = <<>> THEN Blank(en)
  ELSE LET e == ScanEntry(en, "lf", dv)
       IN IF e.st = "run" /\ Len(e.toks) > Len(en.toks) THEN [e EXCEPT !.sw = item.p]
          ELSE [e EXCEPT !.sw = -1]

RECURSIVE EnItems(_, _, _)
EnItems(en, items, dv) ==
  IF items = <<>> THEN en ELSE EnItems(EnItem(en, Head(items), dv), Tail(items), dv)

\* The tokenizer failed (or the input ended) inside the current entry: the
\* entry scanner can only fail -- but symbols are handed to the integer
\* scanner one by one as they are read, so an overflow panic
\* (D_scan_int_overflow) in the tokens read so far, including the symbols of
\* the unfinished token, comes first.
Cut(en, tk, dv) ==
  LET toks == IF tk.m \in {"word", "quo"} THEN Append(en.toks, TokItem(tk, tk.m = "quo", -1)) ELSE en.toks
      en1 == [en EXCEPT !.toks = toks] IN
  IF en.st # "run" THEN en
  ELSE IF en.sw # -1 /\ tk.m = "word" /\ tk.p0 = en.sw + 1 THEN Stop(en, "unmod")
  ELSE IF toks = <<>> THEN Stop(en, "err")
  ELSE LET e == ScanEntry(en1, "cut", dv)
       IN IF e.st \in {"panic", "unmod"} THEN e ELSE Stop(en, "err")

Feed(m, c, dv) ==
  IF m.en.st # "run" THEN m
  ELSE LET r == TkStep(m.tk, c)
           en1 == EnItems(m.en, r.items, dv)
       IN [tk |-> r.tk, en |-> IF r.tk.err THEN Cut(en1, r.tk, dv) ELSE en1]

RECURSIVE FeedAll(_, _, _, _)
FeedAll(m, text, i, dv) ==
  IF i > Len(text) THEN m ELSE FeedAll(Feed(m, text[i], dv), text, i + 1, dv)

\* end of input
Finish(m, dv) ==
  LET en == m.en IN
  IF en.st # "run" THEN en
  ELSE IF TkEofIsError(m.tk) THEN Cut(en, m.tk, dv)
  ELSE IF en.toks = <<>> THEN en
  ELSE LET e == ScanEntry(en, "eof", dv)
       IN IF e.st \in {"panic", "unmod"} THEN e ELSE Stop(en, "err")

OutcomeOf(en) ==
  IF en.st = "panic" THEN [panic |-> TRUE]
  ELSE IF en.st = "unmod" THEN Unmodelled
  ELSE [entries |-> en.out, err |-> en.st = "err"]

Outcome(m, dv) == OutcomeOf(Finish(m, dv))
ReadAllV(text, origin, defaultClass, rv, dv) ==
  Outcome(FeedAll(RdInitV(origin, defaultClass, rv), text, 1, dv), dv)
ReadAll(text, origin, defaultClass, dv) == ReadAllV(text, origin, defaultClass, TRUE, dv)
\* ------------------------------------------------- construction routes
\* The text can reach the reader's buffer by several routes (From<&[u8]>,
\* From<&str>, Zonefile::load from a reader, new / default / with_capacity
\* followed by extend_from_slice in pieces, reserve and the BufMut interface
\* in pieces).  All of them build the same buffer: the concatenation.
Routes == <<"from_slice", "from_str", "load", "bufmut", "extend", "default_reserve">>
Loaded(route, chunks) == Concat(chunks)
\* the pieces a chunked route appends, of size n (the last one shorter)
RECURSIVE ChunksOf(_, _)
ChunksOf(text, n) == IF Len(text) <= n THEN <<text>> ELSE <<SubSeq(text, 1, n)>> \o ChunksOf(SubSeq(text, n + 1, Len(text)), n)

\* ------------------------------------- zonetree::parsed::Zonefile
\* TryFrom<inplace::Zonefile> drives the reader through its Iterator route
\* and classifies every record on insert (RFC 1034 4.2.1): apex and class
\* come from the first record, which must be the SOA; records outside the
\* zone are set aside; NS / DS below the apex make a zone cut unless other
\* data than glue or a CNAME is at that name; a CNAME excludes everything
\* else; other data cannot join a cut (glue can) or a CNAME.  Observable:
\* the list of (owner, error kind) in reading order -- empty means Ok, and
\* then the apex and class -- and whether the conversion to a ZoneBuilder
\* has to fail (no apex, records outside the zone, a cut with DS but no NS).
RECURSIVE WireLabels(_, _)
WireLabels(n, i) == IF i > Len(n) \/ n[i] = 0 THEN <<>>
                    ELSE <<LowerSeq(SubSeq(n, i + 1, i + n[i]))>> \o WireLabels(n, i + n[i] + 1)
LabelsOf(n) == WireLabels(n, 1)
LabelsEndWith(a, b) == Len(a) >= Len(b) /\ SubSeq(a, Len(a) - Len(b) + 1, Len(a)) = b
IsGlueType(t) == t \in {1, 28}
PzInit == [has |-> FALSE, apex |-> <<>>, apexWire |-> <<>>, class |-> -1, normal |-> {}, cutNs |-> {}, cutDs |-> {},
           cnames |-> {}, ooz |-> 0, errs |-> <<>>]
PzErr(z, r, kind) == [z EXCEPT !.errs = Append(@, [owner |-> r.owner, kind |-> kind])]
PzInsert(z0, r) ==
  LET o == LabelsOf(r.owner) IN
  IF ~z0.has /\ r.rtype # 6 THEN PzErr(z0, r, "MissingSoa")
  ELSE LET z == IF z0.has THEN z0 ELSE [z0 EXCEPT !.has = TRUE, !.apex = o, !.apexWire = r.owner, !.class = r.class] IN
    IF r.class # z.class THEN PzErr(z, r, "ClassMismatch")
    ELSE IF ~LabelsEndWith(o, z.apex) THEN [z EXCEPT !.ooz = @ + 1]
    ELSE IF r.rtype \in {2, 43} /\ o # z.apex THEN
      (IF \E p \in z.normal : p[1] = o /\ ~IsGlueType(p[2]) THEN PzErr(z, r, "IllegalZoneCut")
       ELSE IF o \in z.cnames THEN PzErr(z, r, "IllegalZoneCut")
       ELSE [z EXCEPT !.cutNs = IF r.rtype = 2 THEN @ \cup {o} ELSE @,
                      !.cutDs = IF r.rtype = 43 THEN @ \cup {o} ELSE @])
    ELSE IF r.rtype = 5 THEN
      (IF \E p \in z.normal : p[1] = o THEN PzErr(z, r, "IllegalCname")
       ELSE IF o \in (z.cutNs \cup z.cutDs) THEN PzErr(z, r, "IllegalCname")
       ELSE IF o \in z.cnames THEN PzErr(z, r, "MultipleCnames")
       ELSE [z EXCEPT !.cnames = @ \cup {o}])
    ELSE IF ~IsGlueType(r.rtype) /\ o \in (z.cutNs \cup z.cutDs) THEN PzErr(z, r, "IllegalRecord")
    ELSE IF o \in z.cnames THEN PzErr(z, r, "IllegalRecord")
    ELSE [z EXCEPT !.normal = @ \cup {<<o, r.rtype>>}]
RECURSIVE PzFrom(_, _, _)
PzFrom(z, es, i) ==
  IF i > Len(es) THEN z
  ELSE PzFrom(IF "include" \in DOMAIN es[i] THEN z ELSE PzInsert(z, es[i]), es, i + 1)
\* o: an outcome [entries, err] of the reader
ParsedOfD(o, dv) ==
  LET z == PzFrom(PzInit, o.entries, 1)
      errs == IF o.err THEN Append(z.errs, [owner |-> <<0>>, kind |-> "MalformedRecord"]) ELSE z.errs
  IN IF errs # <<>> THEN [ok |-> FALSE, errors |-> errs]
     ELSE [ok |-> TRUE, errors |-> <<>>, apex |-> z.apexWire, class |-> z.class,
           \* "fail": no apex at all, records outside the zone, DS without NS; "any": left open
           builder |-> IF ~z.has /\ "D_parsed_no_apex_unwrap" \in dv THEN "panic"
                       ELSE IF ~z.has \/ z.ooz > 0 \/ (z.cutDs \ z.cutNs) # {} THEN "fail" ELSE "any"]
ParsedOf(o) == ParsedOfD(o, {})
\* what the executor is told about the second conversion
BuilderOf(p) == IF p.ok THEN p.builder ELSE "any"
\* ------------------------------------------- the string-token scanner
\* base::scan::IterScanner is a second implementation of the Scanner
\* interface: every token is a string of its own (no quoting, no origin).  The
\* record-data grammar over it must be the reader's: the tokens are what the
\* tokenizer machine makes of each string, a string it rejects (malformed
\* escape) is an error, relative names are completed with the root (there is
\* no origin), every token must be used.  (SVCB is left
\* out: scan_svcb_octets is documented as implemented by some scanners only.)
RECURSIVE TkRun(_, _, _, _)
TkRun(tk, text, i, items) ==
  IF i > Len(text) THEN [tk |-> tk, items |-> items]
  ELSE LET r == TkStep(tk, text[i]) IN TkRun(r.tk, text, i + 1, items \o r.items)
\* the token a string is.  bad: the string is not exactly one unquoted token
\* (a malformed escape, a delimiter inside); syms are then the symbols in
\* front of the damage
TokenOf(str) ==
  LET r == TkRun(TkInit, str \o <<LF>>, 1, <<>>) IN
  IF r.tk.err THEN [TokItem(r.tk, FALSE, -1) EXCEPT !.k = IF r.tk.m = "word" /\ r.items = <<>> THEN "cut" ELSE "bad"]
  ELSE IF r.tk.m # "gap" \/ r.tk.e # 0 \/ Len(r.items) # 2 THEN [k |-> "bad"]
  ELSE IF r.items[1].k # "tok" \/ r.items[1].q \/ r.items[2].k # "lf" THEN [k |-> "bad"]
  ELSE r.items[1]
HasDecimalEscape(tok) == \E i \in 1..Len(tok.syms) : tok.syms[i] >= 512
\* asciiPos / namePos: the indices of the tokens the grammar of this record
\* type reads with scan_ascii_str / scan_name.  The two scanners differ on a
\* decimal escape inside an ASCII-string token (the reader takes \056 for
\* "8", the string-token scanner refuses it): the specification abstains.
IterData(rtype, strs, asciiPos, namePos, dv) ==
  LET toks0 == [i \in 1..Len(strs) |-> TokenOf(strs[i])]
      marker == Len(strs) >= 1 /\ strs[1] = <<BSL, HASH>>
      cut == {i \in 1..Len(toks0) : toks0[i].k = "cut"}
      toks == [i \in 1..Len(toks0) |-> IF i \in cut THEN [toks0[i] EXCEPT !.k = "tok"] ELSE toks0[i]]
  IN IF \E i \in 1..Len(toks0) : toks0[i].k = "bad" THEN UnmodR
     ELSE IF cut # {} /\ "D_iter_bad_escape_ends_token" \notin dv THEN ErrR
     ELSE IF cut \cap namePos # {} THEN ErrR                      \* scan_name does report a malformed escape
     ELSE IF 1 \in cut /\ IsMarker(toks[1]) THEN UnmodR           \* (that scanner tests the string, not the symbols)
     ELSE IF \E i \in asciiPos : i <= Len(toks) /\ HasDecimalEscape(toks[i]) THEN UnmodR
     ELSE IF marker /\ "D_iter_marker_not_consumed" \in dv THEN ErrR
     ELSE Rdata(rtype, toks, 1, "lf", <<0>>, {})                  \* relative names are completed with the root
IterOutcome(rtype, strs, asciiPos, namePos, dv) ==
  LET r == IterData(rtype, strs, asciiPos, namePos, dv) IN
  IF r.r = "ok" THEN [rd |-> r.rd] ELSE IF r.r = "unmod" THEN Unmodelled ELSE [err |-> TRUE]
=============================================================================
