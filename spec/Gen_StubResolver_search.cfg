CONSTANTS
  Fam = "search"
  NSSet = {1}
  SearchSet <- G_SearchSet
  NDotsSet = {0, 1, 2}
  DotsSet = {0, 1}
  CallSet = {"lookup", "search"}
  TooLongSet <- G_TooLong
  ModeSet = {"mock"}
  UseVcSet = {FALSE}
  TcpOnlySet <- G_None
  TmoSet = {5}
  Est = 30
  Outs = {"Data", "NoData", "NX", "Err"}
  TcpOuts = {"Data"}
  Lats = {1}
  FreshEvery = FALSE
  Dev = {}
SPECIFICATION GenSpec
INVARIANT Emit
CONSTRAINT GenPrune
CHECK_DEADLOCK FALSE
