--------------------------- MODULE ResolvConfFile ---------------------------
(* X09 -- resolv::stub::conf::ResolvConf::{parse, finalize}: the            *)
(* resolv.conf(5) file as a line machine.                                   *)
(*                                                                          *)
(* Properties (for every sequence of lines):                                *)
(*  P4a  totality: parse never panics; a line is skipped iff it is blank    *)
(*       or its FIRST character is '#' or ';'; every other line starts      *)
(*       with a keyword; an unknown keyword, a missing or surplus argument, *)
(*       a malformed domain name or a malformed numeric option value fails  *)
(*       the parse with an error, and parsing a file is the same as         *)
(*       parsing its lines one after the other up to the first failure      *)
(*       (the effects of the earlier lines stay);                           *)
(*  P4b  `nameserver` lines accumulate in file order; `domain` and `search` *)
(*       are mutually exclusive and THE LAST ONE WINS (resolv.conf(5));     *)
(*       a search list always ends up containing the root unless it was     *)
(*       given by `domain`; option words are independent of each other      *)
(*       and of their order except for the pair ip6-dotint / no-ip6-dotint  *)
(*       (last wins) and repeated ndots/timeout/attempts (last wins);       *)
(*       unknown option words are ignored;                                  *)
(*  P4c  after finalize the configuration is usable: at least one server    *)
(*       (127.0.0.1:53 if none was given), a non-empty search list, and     *)
(*       every server's request timeout equals options.timeout.             *)
(*                                                                          *)
(* The module describes the parser AS BUILT where resolv.conf(5) is silent  *)
(* or the library documents a difference: values of ndots / timeout /       *)
(* attempts are taken as they are (glibc caps them at 15 / 30 / 5; the      *)
(* library reads ndots and attempts nowhere, see X04), a failing line may   *)
(* already have had its effect (`nameserver A B` adds A and then fails).    *)
(*                                                                          *)
(* Lines are sequences of words (the lexer is LineClass below); the meaning *)
(* of a word is given by the vocabulary tables, the harness renders words   *)
(* to text.  Pure module; the machine is MC_ResolvConfFile.                 *)
EXTENDS Integers, Sequences, FiniteSets

--------------------------------------------------------------------------
(* Lexing one raw line (character codes): skip or words.                   *)
IsSpace(c) == c \in {32, 9, 13, 10, 11, 12}
RECURSIVE TrimEnd(_)
TrimEnd(s) == IF s # <<>> /\ IsSpace(s[Len(s)]) THEN TrimEnd(SubSeq(s, 1, Len(s) - 1)) ELSE s
LineSkipped(chars) == LET t == TrimEnd(chars) IN t = <<>> \/ t[1] \in {35, 59}

--------------------------------------------------------------------------
(* Vocabulary.                                                              *)
IpWords == {"192.0.2.1", "192.0.2.2", "2001:db8::1", "::1"}
NameVal(w) == CASE w = "example.com" -> "example.com."
                [] w = "Sub.Example.ORG." -> "sub.example.org."
                [] w = "local" -> "local."
                [] w = "." -> "."
                [] OTHER -> "BAD"                       \* "a..b", "-bad name" ...
CommentWords == {"#", ";x", "#nameserver"}

\* option word -> [k: "flag" | "unflag" | "num" | "ignore" | "bad", f, n]
Opt(k, f, n) == [k |-> k, f |-> f, n |-> n]
OptSem(w) ==
  CASE w = "ndots:0" -> Opt("num", "ndots", 0)       [] w = "ndots:3" -> Opt("num", "ndots", 3)
    [] w = "ndots:15" -> Opt("num", "ndots", 15)     [] w = "ndots:16" -> Opt("num", "ndots", 16)
    [] w = "ndots:100000" -> Opt("num", "ndots", 100000)
    [] w = "ndots:+7" -> Opt("num", "ndots", 7)
    [] w = "timeout:0" -> Opt("num", "timeout", 0)   [] w = "timeout:1" -> Opt("num", "timeout", 1)
    [] w = "timeout:31" -> Opt("num", "timeout", 31)
    [] w = "attempts:1" -> Opt("num", "attempts", 1) [] w = "attempts:6" -> Opt("num", "attempts", 6)
    [] w = "rotate" -> Opt("flag", "rotate", 0)
    [] w = "no-check-names" -> Opt("flag", "no_check_name", 0)
    [] w = "inet6" -> Opt("flag", "use_inet6", 0)
    [] w = "ip6-bytestring" -> Opt("flag", "use_bstring", 0)
    [] w = "ip6-dotint" -> Opt("flag", "use_ip6dotint", 0)
    [] w = "no-ip6-dotint" -> Opt("unflag", "use_ip6dotint", 0)
    [] w = "edns0" -> Opt("flag", "use_edns0", 0)
    [] w = "single-request" -> Opt("flag", "single_request", 0)
    [] w = "single-request-reopen" -> Opt("flag", "single_request_reopen", 0)
    [] w = "no-tld-query" -> Opt("flag", "no_tld_query", 0)
    [] w = "use-vc" -> Opt("flag", "use_vc", 0)
    [] w \in {"debug", "trust-ad", "ndots", "timeout", "rotate:1", "foo:1", ":5", "no-reload", "ROTATE"} -> Opt("ignore", "", 0)
    [] OTHER -> Opt("bad", "", 0)         \* "ndots:x", "ndots:", "ndots:-1", "foo:bar", "timeout:1.5"

--------------------------------------------------------------------------
(* State of a ResolvConf.                                                   *)
ConfInit == [servers |-> <<>>, stmo |-> <<>>, search |-> <<>>, ndots |-> 1, timeout |-> 5,
             attempts |-> 2, flags |-> {}]

Ok(c)  == [ok |-> TRUE, st |-> c]
Err(c) == [ok |-> FALSE, st |-> c]

ApplyOpt(c, o) ==
  CASE o.k = "flag" -> [c EXCEPT !.flags = @ \cup {o.f}]
    [] o.k = "unflag" -> [c EXCEPT !.flags = @ \ {o.f}]
    [] o.k = "num" -> (CASE o.f = "ndots" -> [c EXCEPT !.ndots = o.n]
                         [] o.f = "timeout" -> [c EXCEPT !.timeout = o.n]
                         [] OTHER -> [c EXCEPT !.attempts = o.n])
    [] OTHER -> c

RECURSIVE Options(_, _, _)
Options(c, words, i) ==           \* stops at the first malformed value; earlier words stay applied
  IF i > Len(words) THEN Ok(c)
  ELSE LET o == OptSem(words[i])
       IN IF o.k = "bad" THEN Err(c) ELSE Options(ApplyOpt(c, o), words, i + 1)

SearchList(words) ==              \* words 2.. of a search line -> list or "BAD"
  LET vals == [i \in 1..(Len(words) - 1) |-> NameVal(words[i + 1])]
  IN IF \E i \in 1..Len(vals) : vals[i] = "BAD" THEN <<"BAD">>
     ELSE IF \E i \in 1..Len(vals) : vals[i] = "." THEN vals ELSE Append(vals, ".")

\* one line (already lexed): lead = TRUE when the line starts with white space
ParseLine(c, words, lead) ==
  IF words = <<>> THEN Ok(c)
  ELSE IF ~lead /\ words[1] \in CommentWords THEN Ok(c)
  ELSE LET kw == words[1] IN
    CASE kw = "nameserver" ->
           IF Len(words) < 2 \/ words[2] \notin IpWords THEN Err(c)
           ELSE LET c2 == [c EXCEPT !.servers = Append(@, words[2]), !.stmo = Append(@, 2)]
                IN IF Len(words) > 2 THEN Err(c2) ELSE Ok(c2)
      [] kw = "domain" ->
           IF Len(words) < 2 \/ NameVal(words[2]) = "BAD" THEN Err(c)
           ELSE LET c2 == [c EXCEPT !.search = <<NameVal(words[2])>>]
                IN IF Len(words) > 2 THEN Err(c2) ELSE Ok(c2)
      [] kw = "search" ->
           LET l == SearchList(words)
           IN IF l = <<"BAD">> THEN Err(c) ELSE Ok([c EXCEPT !.search = l])
      [] kw = "sortlist" -> Ok(c)
      [] kw = "options" -> Options(c, words, 2)
      [] OTHER -> Err(c)

Finalize(c) ==
  LET sv == IF c.servers = <<>> THEN <<"127.0.0.1">> ELSE c.servers
  IN [c EXCEPT !.servers = sv,
               !.stmo = [i \in 1..Len(sv) |-> c.timeout],
               !.search = IF c.search = <<>> THEN <<".">> ELSE c.search]

\* a whole file: lines up to and including the first failing one
RECURSIVE ParseFile(_, _, _, _)
ParseFile(c, lines, lead, i) ==
  IF i > Len(lines) THEN Ok(c)
  ELSE LET r == ParseLine(c, lines[i], lead)
       IN IF r.ok THEN ParseFile(r.st, lines, lead, i + 1) ELSE r

--------------------------------------------------------------------------
(* Properties of one step c --line--> r.                                    *)
IsPrefixSeq(s, t) == Len(s) <= Len(t) /\ SubSeq(t, 1, Len(s)) = s

StepLaws(c, words, lead, r) ==
  /\ IsPrefixSeq(c.servers, r.st.servers)                         \* servers only accumulate
  /\ Len(r.st.servers) <= Len(c.servers) + 1
  /\ (r.ok /\ words # <<>> /\ words[1] = "domain" /\ (lead \/ words[1] \notin CommentWords)) =>
        r.st.search = <<NameVal(words[2])>>                       \* last one wins, whatever was there
  /\ (r.ok /\ words # <<>> /\ words[1] = "search") =>
        /\ r.st.search = SearchList(words)
        /\ \E i \in 1..Len(r.st.search) : r.st.search[i] = "."
  /\ (words = <<>> \/ words[1] \notin {"domain", "search"}) => r.st.search = c.search
  /\ (words = <<>> \/ words[1] # "options") =>
        /\ r.st.flags = c.flags /\ r.st.ndots = c.ndots
        /\ r.st.timeout = c.timeout /\ r.st.attempts = c.attempts
  /\ c.flags \ {"use_ip6dotint"} \subseteq r.st.flags             \* flags are never cleared by a line

FinalLaws(c) ==
  LET f == Finalize(c)
  IN /\ f.servers # <<>> /\ f.search # <<>>
     /\ \A i \in 1..Len(f.stmo) : f.stmo[i] = f.timeout
     /\ Len(f.stmo) = Len(f.servers)
     /\ c.servers # <<>> => f.servers = c.servers
     /\ c.search # <<>> => f.search = c.search
     /\ Finalize(f) = f                                           \* idempotent
=============================================================================
