CONSTANTS
  Dev = {}
  Conns = {1, 2}
  MaxReq = 1
  QCaps = {1}
  Kinds = {"single"}
  MaxCredit = 2
  MaxTick = 2
  NP = 2
  Limit = 2
  MaxAErr = 0
  AAMs = {TRUE}
  MaxFail = 1
  MaxAbort = 1
SPECIFICATION SpecConn
INVARIANT EachResponseOnce
INVARIANT IdQuestionPreserved
INVARIANT Framed
INVARIANT NumConnsExact
PROPERTY OthersUnaffected
PROPERTY ClosedFinal
PROPERTY RefusedOnlyAtLimit
PROPERTY TornIsLast
CHECK_DEADLOCK FALSE
