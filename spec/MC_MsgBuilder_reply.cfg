CONSTANTS
  Dev = {}
  Scenario = "reply"
  MaxOps = 4
  CompSet = {"none", "hash"}
  TgtSet = {"array", "sarray"}
SPECIFICATION Spec
INVARIANT ParseBack
INVARIANT CountsMatch
INVARIANT PointersBackwardAndIntended
INVARIANT ShimMatches
INVARIANT TableWithinBuffer
INVARIANT TableSound
INVARIANT WithinCapacity
INVARIANT HeaderKept
PROPERTY NoopProp
INVARIANT Emit
CHECK_DEADLOCK FALSE
