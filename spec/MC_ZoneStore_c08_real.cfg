CONSTANTS
  Dev <- AllDevs
  NodeNames <- Nodes_tiny
  QNames <- QNames_tiny
  Types <- FourTypes
  QTypes <- QTypesFour
  Vals = {1, 2}
  ValsOf <- MCValsOne
  OpFamilies = {"W", "U", "M", "B"}
  Writers = {"w1"}
  Readers = {}
  MaxVer = 1
  MaxOps = 2
  MaxZf = 1
  NsTarget <- MCNsTarget
SPECIFICATION Spec
VIEW View
CHECK_DEADLOCK FALSE
INVARIANT DeviationsExplain
INVARIANT ContentRefines
INVARIANT SingleWriter
PROPERTY AtomicVisibility
