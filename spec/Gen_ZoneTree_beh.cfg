CONSTANTS
  Dev = {}
  Classes <- MCClasses
  ApexNames <- MCApexQuick
  ArgNames <- MCArgQuick
  QNames <- MCQQuick
  Ids = {1}
  MaxOps = 0
  MaxHist = 3
  Mode = "behaviours"
SPECIFICATION GenSpec
VIEW GenView
INVARIANT Emit
CHECK_DEADLOCK FALSE
