CONSTANTS
  Dev = {"D_sign_into_skips_zone"}
  MaxK = 0
  Thorough = FALSE
SPECIFICATION Spec
INVARIANT DoneMatchesOracle
INVARIANT ErrMatchesOracle
INVARIANT PrefixSafe
INVARIANT CutStateCorrect
INVARIANT IntoSignsWholeZone
CHECK_DEADLOCK FALSE
