----------------------------- MODULE MC_ZoneSyms -----------------------------
(* Characters at the boundaries of the symbol alphabet.  One character --     *)
(* DEL, the first and last code point of every UTF-8 length (U+0080, U+07FF,  *)
(* U+0800, U+FFFF, U+10000, U+10FFFF), U+00FF / U+0100 around the 8-bit       *)
(* boundary, and octet strings that are not UTF-8 (a lone continuation octet, *)
(* a lead octet followed by ASCII, a truncated sequence, 0xFF) -- is put at   *)
(* the start, in the middle and at the end of a token, unquoted and quoted,   *)
(* in every place where the reader consumes symbols in its own way: owner     *)
(* label, name in record data, character string, type / class / TTL column,   *)
(* integer, $-word, $INCLUDE path, $ORIGIN name, $TTL value, the Base 64 /    *)
(* Base 16 / Base 32 converters, the NSEC3 salt, the \# length and data, an   *)
(* SVCB parameter, right after a lone @ and after \#, and inside a comment.   *)
(* The law: inside a comment the character is skipped; in a $INCLUDE path a   *)
(* character (well-formed UTF-8, or DEL) is part of the path; everywhere else *)
(* -- and for octets that are not UTF-8 also in the path -- the entry is an   *)
(* error.  Never a panic.                                                     *)
EXTENDS ZoneFile, TLC, Json

VARIABLES tpl, ch, where, quoted, act
vars == <<tpl, ch, where, quoted, act>>

Origin0 == <<1, 111, 0>>
OwnerA == <<1, 97>> \o Origin0

\* [o |-> octets, ok |-> a character]
C(o, ok) == [o |-> o, ok |-> ok]
Chs == { C(<<127>>, TRUE),
         C(<<194, 128>>, TRUE), C(<<195, 191>>, TRUE), C(<<196, 128>>, TRUE), C(<<223, 191>>, TRUE),
         C(<<224, 160, 128>>, TRUE), C(<<239, 191, 191>>, TRUE),
         C(<<240, 144, 128, 128>>, TRUE), C(<<244, 143, 191, 191>>, TRUE),
         C(<<128>>, FALSE), C(<<194, 65>>, FALSE), C(<<224, 160>>, FALSE), C(<<255>>, FALSE),
         C(<<237, 160, 128>>, FALSE),                                  \* a surrogate
         C(<<244, 144, 128, 128>>, FALSE) }                            \* beyond U+10FFFF

\* templates: text before the token, the token's octets around the hole (two
\* halves), text after the token; kind: "err" / "comment" / "path"; q: the
\* token may be written quoted
T(name, pre, a, b, post, kind, q) == [name |-> name, pre |-> pre, a |-> a, b |-> b, post |-> post, kind |-> kind, q |-> q]
S_IN == <<32, 73, 78, 32>>                                   \* " IN "
A_IN == <<97>> \o S_IN                                       \* "a IN "
TXT_T == <<84, 88, 84, 32, 116, LF>>                         \* "TXT t\n"
Templates == {
  T("owner", <<>>, <<120>>, <<121>>, S_IN \o TXT_T, "err", TRUE),
  T("rdata-name", A_IN \o <<78, 83, 32>>, <<120>>, <<121, 46>>, <<LF>>, "err", TRUE),
  T("charstr", A_IN \o <<84, 88, 84, 32>>, <<120>>, <<121>>, <<LF>>, "err", TRUE),
  T("hinfo", A_IN \o <<72, 73, 78, 70, 79, 32, 99, 32>>, <<120>>, <<121>>, <<LF>>, "err", TRUE),
  T("type", A_IN, <<84, 88>>, <<84>>, <<32, 116, LF>>, "err", TRUE),
  T("class", <<97, 32>>, <<73>>, <<78>>, <<32>> \o TXT_T, "err", TRUE),
  T("ttl-column", <<97, 32>>, <<51>>, <<54>>, S_IN \o TXT_T, "err", TRUE),
  T("mx-preference", A_IN \o <<77, 88, 32>>, <<49>>, <<48>>, <<32, 110, 46, LF>>, "err", TRUE),
  T("control-word", <<>>, <<36, 84, 84>>, <<76>>, <<32, 53, LF>>, "err", TRUE),
  T("dollar-ttl", W_TTL \o <<32>>, <<49>>, <<48>>, <<LF>>, "err", TRUE),
  T("origin-name", W_ORIGIN \o <<32>>, <<120>>, <<121, 46>>, <<LF>>, "err", TRUE),
  T("include-path", W_INCLUDE \o <<32>>, <<102>>, <<103>>, <<LF>>, "path", TRUE),
  T("include-origin", W_INCLUDE \o <<32, 102, 32>>, <<120>>, <<121, 46>>, <<LF>>, "err", TRUE),
  T("base64", A_IN \o <<79, 80, 69, 78, 80, 71, 80, 75, 69, 89, 32>>, <<65, 65>>, <<65, 65>>, <<LF>>, "err", TRUE),
  T("base64-dnskey", A_IN \o <<68, 78, 83, 75, 69, 89, 32, 50, 53, 54, 32, 51, 32, 56, 32>>, <<65, 119, 69, 65>>, <<65, 65, 65, 65>>, <<LF>>, "err", TRUE),
  T("base16", A_IN \o <<68, 83, 32, 49, 32, 56, 32, 50, 32>>, <<48, 102>>, <<97, 66>>, <<LF>>, "err", TRUE),
  T("base16-tlsa", A_IN \o <<84, 76, 83, 65, 32, 51, 32, 49, 32, 49, 32>>, <<48, 102>>, <<97, 66>>, <<LF>>, "err", TRUE),
  T("alg", A_IN \o <<68, 83, 32, 49, 32>>, <<49>>, <<51>>, <<32, 50, 32, 48, 102, LF>>, "err", TRUE),
  T("base32", A_IN \o <<78, 83, 69, 67, 51, 32, 49, 32, 48, 32, 53, 32, 45, 32>>, <<48, 52>>, <<48, 52>>, <<32, 65, LF>>, "err", TRUE),
  T("salt", A_IN \o <<78, 83, 69, 67, 51, 80, 65, 82, 65, 77, 32, 49, 32, 48, 32, 53, 32>>, <<97>>, <<98>>, <<LF>>, "err", TRUE),
  T("bitmap-type", A_IN \o <<78, 83, 69, 67, 32, 110, 46, 32>>, <<84, 88>>, <<84>>, <<LF>>, "err", TRUE),
  T("generic-len", A_IN \o <<84, 89, 80, 69, 49, 54, 32, BSL, HASH, 32>>, <<48>>, <<49>>, <<32, 48, 48, LF>>, "err", TRUE),
  T("generic-data", A_IN \o <<84, 89, 80, 69, 49, 54, 32, BSL, HASH, 32, 50, 32>>, <<48, 48>>, <<48, 48>>, <<LF>>, "err", TRUE),
  T("svcb-param", A_IN \o <<83, 86, 67, 66, 32, 49, 32, 46, 32>>, <<107, 101, 121, 54, 53, 50, 56, 48, 61, 97>>, <<98>>, <<LF>>, "err", TRUE),
  T("after-at", <<>>, <<AT>>, <<>>, S_IN \o TXT_T, "err", FALSE),
  T("after-marker", A_IN \o <<84, 89, 80, 69, 49, 54, 32>>, <<BSL, HASH>>, <<>>, <<32, 49, 32, 48, 48, LF>>, "err", FALSE),
  T("comment", A_IN \o <<84, 88, 84, 32, 116, 32, SEMI>>, <<99>>, <<100>>, <<LF>>, "comment", FALSE) }

Places == {"start", "mid", "end"}
Token(t, c, w, q) ==
  LET body == CASE w = "start" -> c.o \o t.a \o t.b [] w = "mid" -> t.a \o c.o \o t.b [] w = "end" -> t.a \o t.b \o c.o
  IN IF q THEN <<QUOTE>> \o body \o <<QUOTE>> ELSE body
Text(t, c, w, q) == t.pre \o Token(t, c, w, q) \o t.post

\* the law
RecA == [owner |-> OwnerA, class |-> 1, ttl |-> 3600, rtype |-> 16, rdata |-> <<1, 116>>]
Expected(t, c, w, q) ==
  IF t.kind = "comment" THEN [entries |-> <<RecA>>, err |-> FALSE]
  ELSE IF t.kind = "path" /\ c.ok
       THEN [entries |-> <<[include |-> CASE w = "start" -> c.o \o t.a \o t.b [] w = "mid" -> t.a \o c.o \o t.b
                                          [] w = "end" -> t.a \o t.b \o c.o, origin |-> <<>>]>>, err |-> FALSE]
  ELSE [entries |-> <<>>, err |-> TRUE]

Init == /\ tpl \in Templates /\ ch \in Chs /\ where \in Places /\ quoted \in {FALSE} \cup (IF tpl.q THEN {TRUE} ELSE {})
        /\ act = tpl.name
Next == UNCHANGED vars
Spec == Init /\ [][Next]_vars

\* the reader machine agrees with the law wherever it decides
ReaderAgrees ==
  LET o == ReadAll(Text(tpl, ch, where, quoted), Origin0, 1, Dev)
  IN o = Unmodelled \/ o = Expected(tpl, ch, where, quoted)
\* and it decides everything but UTF-8 where the string scanner reads
ReaderDecides ==
  (tpl.name \notin {"include-path", "control-word"} \/ ch.o = <<127>>) => ReadAll(Text(tpl, ch, where, quoted), Origin0, 1, Dev) # Unmodelled

Emit == PrintT("CASE " \o ToJson([in |-> [text |-> Text(tpl, ch, where, quoted), origin |-> Origin0, class |-> 1,
                                          act |-> tpl.name, where |-> where, quoted |-> quoted, char |-> ch.o],
                                  exp |-> Expected(tpl, ch, where, quoted)]))
=============================================================================
