CONSTANTS
  Dev = {}
  Classes <- MCClasses
  ApexNames <- MCApexQuick
  ArgNames <- MCArgQuick
  QNames <- MCQQuick
  Ids = {1}
  MaxOps = 3
SPECIFICATION Spec
VIEW View
INVARIANT TypeOK
INVARIANT RoundTrip
INVARIANT RemoveIsLocal
INVARIANT InsertIsLocal
CHECK_DEADLOCK FALSE
