CONSTANTS
  Dev = {}
  Mut = {}
  Names = {"a.example", "b.example"}
  Types = {"A", "NSEC"}
  Cases = {0, 1}
  AdVals = {FALSE}
  CdVals = {FALSE, TRUE}
  DoVals = {FALSE, TRUE}
  RdVals = {TRUE}
  WithBypass = TRUE
  Classes = {"answer"}
  TtlVecs <- TV_One
  AdBits = {TRUE}
  Ticks = {4000, 5500}
  Configs <- CfgsDefault
  MaxSteps = 4
SPECIFICATION Spec
VIEW View
INVARIANT TypeOK
PROPERTY P_ServedWasSaid
PROPERTY P_AgedExactly
PROPERTY P_NeverStale
PROPERTY P_BoundsRespected
PROPERTY P_NoDnssecLeak
PROPERTY P_NoPanic
PROPERTY P_ViewIsWire
CHECK_DEADLOCK FALSE
