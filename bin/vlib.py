#!/usr/bin/env python3
"""Shared driver library for the /verif checks.

Each property has a module checks/<ID>.py with a function run(ctx).  The
context gives it: TLC runs (model checking, case generation, trace
validation), harness builds and runs, violation / known-finding reporting
and the evidence writer.  Exit codes: 0 held, 1 VIOLATION, 2 tool error.
"""
import hashlib
import json
import os
import re
import shutil
import subprocess
import sys
import time

ROOT = os.path.dirname(os.path.dirname(os.path.abspath(__file__)))
SPEC = os.path.join(ROOT, "spec")
HARNESS = os.path.join(ROOT, "harness")
WORK = os.environ.get("VERIF_WORK_DIR") or os.path.join(ROOT, "work")
# agents developing in parallel may point VERIF_TARGET at a private cargo
# target directory; registered checks use harness/target
TARGET = os.environ.get("VERIF_TARGET") or os.path.join(HARNESS, "target")
REPLAYS = os.path.join(ROOT, "replays")
EVIDENCE = os.environ.get("VERIF_EVIDENCE_DIR") or os.path.join(ROOT, "evidence")
KNOWN = os.environ.get("VERIF_KNOWN_FINDINGS") or os.path.join(ROOT, "known_findings.json")
TLA_CP = "/opt/veriftools/tla/tla2tools.jar:/opt/veriftools/tla/CommunityModules-deps.jar"


def harness_dir():
    """The crate directory cargo is run in.  Normally /verif/harness (path
    dependency on /repo).  Builders that try code changes in a private git
    worktree set VERIF_REPO=<worktree>; then a shadow crate directory with
    the same sources but the dependency path rewritten is used, so /repo
    itself is never touched."""
    repo = os.environ.get("VERIF_REPO")
    if not repo:
        return HARNESS
    shadow = TARGET.rstrip("/") + "-crate"
    os.makedirs(shadow, exist_ok=True)
    for name in ("src", ".cargo"):
        link = os.path.join(shadow, name)
        if not os.path.islink(link):
            os.symlink(os.path.join(HARNESS, name), link)
    shutil.copyfile(os.path.join(HARNESS, "Cargo.lock"), os.path.join(shadow, "Cargo.lock"))
    toml = open(os.path.join(HARNESS, "Cargo.toml")).read().replace(
        'path = "/repo"', 'path = "%s"' % repo)
    old = None
    tp = os.path.join(shadow, "Cargo.toml")
    if os.path.exists(tp):
        old = open(tp).read()
    if old != toml:
        open(tp, "w").write(toml)
    return shadow


class ToolError(Exception):
    pass


def _unescape_tla(s):
    # TLC prints strings with \" and \\ escapes.
    out = []
    i = 0
    n = len(s)
    while i < n:
        c = s[i]
        if c == "\\" and i + 1 < n:
            d = s[i + 1]
            if d == "n":
                out.append("\n")
            elif d == "t":
                out.append("\t")
            else:
                out.append(d)
            i += 2
        else:
            out.append(c)
            i += 1
    return "".join(out)


class TlcResult:
    def __init__(self):
        self.rc = None
        self.generated = 0
        self.distinct = 0
        self.ok = False
        self.violated = None  # invariant / property name
        self.deadlock = False
        self.error_text = ""
        self.cases = []  # parsed JSON objects from "CASE {...}" lines
        self.tagged = {}  # tag -> list of JSON objects from "<TAG> {...}" lines
        self.prints = []  # other printed values
        self.coverage = {}  # action -> (distinct, generated)
        self.wall_s = 0.0
        self.cmd = ""
        self.log = ""
        self.diameter = None

    def summary(self):
        return {
            "states": self.distinct,
            "transitions": self.generated,
            "ok": self.ok,
            "wall_s": round(self.wall_s, 2),
            "cmd": self.cmd,
        }


_COV = re.compile(r"^<(\w+) line \d+, col \d+ to line \d+, col \d+ of module (\w+)>: (\d+):(\d+)")
_STATES = re.compile(r"^(\d+) states generated, (\d+) distinct states found")
_TAGLINE = re.compile(r'^"([A-Z][A-Z0-9_]*) (.*)"$')


class Ctx:
    def __init__(self, pid, tier, seed):
        self.pid = pid
        self.tier = tier
        self.seed = seed
        self.work = os.path.join(WORK, pid)
        shutil.rmtree(self.work, ignore_errors=True)
        os.makedirs(self.work, exist_ok=True)
        os.makedirs(REPLAYS, exist_ok=True)
        os.makedirs(EVIDENCE, exist_ok=True)
        self.t0 = time.time()
        self.states = 0
        self.transitions = 0
        self.traces = 0
        self.evaluations = 0
        self.samples = []
        self.stages = []
        self.violations = []
        self.known_witnessed = {}
        self.assumptions = []
        self.coverage_actions = {}
        self.exhaustive_flags = []
        self.selftests = []
        kf = {"open": [], "fixed": []}
        if os.path.exists(KNOWN):
            kf = json.load(open(KNOWN))
        self.open_devs = {
            e["deviation"]: e for e in kf.get("open", []) if e.get("property") == pid
        }

    # ----------------------------------------------------------------- build
    def build(self, *bins):
        """Build harness binaries from /repo's current working tree."""
        t = time.time()
        cmd = ["cargo", "build", "--release", "--offline"]
        for b in bins:
            cmd += ["--bin", b]
        env = dict(os.environ)
        env["CARGO_NET_OFFLINE"] = "true"
        env["CARGO_TARGET_DIR"] = TARGET
        p = subprocess.run(cmd, cwd=harness_dir(), env=env, stdout=subprocess.PIPE,
                           stderr=subprocess.STDOUT, text=True)
        if p.returncode != 0:
            sys.stdout.write(p.stdout[-6000:])
            raise ToolError("harness build failed")
        self.stage("build", {"bins": list(bins), "wall_s": round(time.time() - t, 1)})
        return [os.path.join(TARGET, "release", b) for b in bins]

    def bin(self, name):
        return os.path.join(TARGET, "release", name)

    # ------------------------------------------------------------------- TLC
    def tlc(self, module, cfg=None, *, workers=8, simulate=None, depth=None,
            env=None, timeout=1800, coverage=True, deque=False, xmx="6g",
            label=None, expect_violation=None, count=True, seed=None,
            extra=None, cases_to=None):
        """Run TLC on spec/<module>.tla with spec/<cfg>.cfg.

        simulate: None or number of behaviours (uses -simulate num=N).
        expect_violation: name of an invariant that is *expected* to be
        violated (used to document deviations); then ok means it was.
        cases_to: path; CASE lines are streamed there as ndjson instead of
        being kept in memory.
        """
        cfg = cfg or module
        meta = os.path.join(self.work, "tlc-" + (label or cfg))
        shutil.rmtree(meta, ignore_errors=True)
        jopts = ["-XX:+UseParallelGC", "-Xss1g", "-Xmx" + xmx]
        if deque:
            jopts.append("-Dtlc2.tool.queue.IStateQueue=StateDeque")
        cmd = ["java"] + jopts + ["-cp", TLA_CP, "tlc2.TLC",
                                  "-workers", str(workers), "-metadir", meta,
                                  "-cleanup", "-noGenerateSpecTE",
                                  "-config", cfg + ".cfg"]
        if coverage and not simulate:
            cmd += ["-coverage", "1"]
        if simulate:
            cmd += ["-simulate", "num=%d" % simulate]
            cmd += ["-seed", str(seed if seed is not None else self.seed)]
        if depth:
            cmd += ["-depth", str(depth)]
        if extra:
            cmd += extra
        cmd += [module + ".tla"]
        e = dict(os.environ)
        e.pop("JAVA_TOOL_OPTIONS", None)
        if env:
            e.update({k: str(v) for k, v in env.items()})
        res = TlcResult()
        res.cmd = " ".join(cmd[cmd.index("tlc2.TLC"):])
        t = time.time()
        logp = os.path.join(self.work, "tlc-%s.log" % (label or cfg))
        res.log = logp
        casef = open(cases_to, "w") if cases_to else None
        ncases = 0
        with open(logp, "w") as logf:
            p = subprocess.Popen(["timeout", str(timeout)] + cmd, cwd=SPEC, env=e,
                                 stdout=subprocess.PIPE, stderr=subprocess.STDOUT,
                                 text=True, bufsize=1 << 20)
            err_lines = []
            in_err = False
            for line in p.stdout:
                line = line.rstrip("\n")
                m = _TAGLINE.match(line)
                if m:
                    tag, body = m.group(1), _unescape_tla(m.group(2))
                    if tag == "CASE" and casef is not None:
                        casef.write(body + "\n")
                        ncases += 1
                        continue
                    try:
                        obj = json.loads(body)
                    except Exception:
                        obj = body
                    if tag == "CASE":
                        res.cases.append(obj)
                    else:
                        res.tagged.setdefault(tag, []).append(obj)
                    continue
                logf.write(line + "\n")
                m = _STATES.match(line)
                if m:
                    res.generated = int(m.group(1))
                    res.distinct = int(m.group(2))
                    continue
                m = _COV.match(line)
                if m:
                    a = m.group(1)
                    # TLC prints "<name ...>: distinct:generated"
                    d, g = int(m.group(3)), int(m.group(4))
                    od, og = res.coverage.get(a, (0, 0))
                    res.coverage[a] = (max(od, d), max(og, g))
                    continue
                if line.startswith("Error:"):
                    in_err = True
                    m2 = re.match(r"Error: Invariant (\w+) is violated", line)
                    if m2:
                        res.violated = m2.group(1)
                    m2 = re.match(r"Error: Action property (\w+) is violated", line)
                    if m2:
                        res.violated = m2.group(1)
                    m2 = re.match(r"Error: Temporal properties were violated", line)
                    if m2:
                        res.violated = "TemporalProperty"
                    if "Deadlock reached" in line:
                        res.deadlock = True
                if in_err and len(err_lines) < 200:
                    err_lines.append(line)
                m = re.match(r"The depth of the complete state graph search is (\d+)", line)
                if m:
                    res.diameter = int(m.group(1))
                if "Model checking completed. No error has been found." in line:
                    res.ok = True
            p.wait()
            res.rc = p.returncode
        if casef:
            casef.close()
            res.ncases = ncases
        else:
            res.ncases = len(res.cases)
        res.wall_s = time.time() - t
        res.error_text = "\n".join(err_lines)
        if simulate and res.rc == 0:
            res.ok = True
        if res.rc == 124:
            raise ToolError("TLC timed out after %ss: %s" % (timeout, res.cmd))
        if expect_violation:
            res.ok = res.violated == expect_violation
        if count:
            self.states += res.distinct
            self.transitions += res.generated
        for a, (d, g) in res.coverage.items():
            od, og = self.coverage_actions.get(a, (0, 0))
            self.coverage_actions[a] = (od + d, og + g)
        self.stage("tlc:" + (label or cfg), dict(res.summary(), cases=res.ncases,
                                                 violated=res.violated))
        return res

    def require_ok(self, res, what):
        """A model-checking failure of the specification itself is a tool
        error (exit 2), never a VIOLATION of the code."""
        if not res.ok:
            sys.stdout.write(open(res.log).read()[-5000:])
            raise ToolError("%s: TLC did not succeed (violated=%s rc=%s)" %
                            (what, res.violated, res.rc))

    def require_actions(self, res, names):
        missing = [n for n in names if res.coverage.get(n, (0, 0))[1] == 0]
        if missing:
            raise ToolError("vacuity: actions never taken: %s" % missing)

    # --------------------------------------------------------------- harness
    def run_bin(self, name, args=(), stdin_path=None, timeout=3600, env=None):
        e = dict(os.environ)
        e["VERIF_SEED"] = str(self.seed)
        e["VERIF_TIER"] = self.tier
        if env:
            e.update({k: str(v) for k, v in env.items()})
        stdin = open(stdin_path, "rb") if stdin_path else subprocess.DEVNULL
        t = time.time()
        p = subprocess.run(["timeout", str(timeout), self.bin(name)] + list(args),
                           stdin=stdin, stdout=subprocess.PIPE,
                           stderr=subprocess.PIPE, env=e, cwd=self.work)
        if stdin_path:
            stdin.close()
        out = p.stdout.decode("utf-8", "replace")
        if p.returncode == 124:
            raise ToolError("harness %s timed out" % name)
        return p.returncode, out, p.stderr.decode("utf-8", "replace"), time.time() - t

    def replay_cases(self, name, cases_path, args=(), timeout=3600, label=None, env=None):
        """Run an S->I executor over an ndjson file of cases.  The executor
        (verif_harness::common::run_cases) prints one JSON summary line
        starting with SUMMARY and one line per failing/known case."""
        devs = ",".join(sorted(self.open_devs))
        rc, out, err, wall = self.run_bin(name, list(args) + ["--open-devs", devs],
                                          stdin_path=cases_path, timeout=timeout, env=env)
        summary = None
        fails = []
        knowns = []
        for line in out.splitlines():
            if line.startswith("SUMMARY "):
                summary = json.loads(line[8:])
            elif line.startswith("FAIL "):
                fails.append(json.loads(line[5:]))
            elif line.startswith("KNOWN "):
                knowns.append(json.loads(line[6:]))
        if summary is None:
            sys.stdout.write(out[-3000:] + err[-3000:])
            raise ToolError("executor %s produced no summary (rc=%s)" % (name, rc))
        self.evaluations += summary.get("n", 0)
        self.traces += summary.get("n", 0)
        for s in summary.get("samples", [])[:3]:
            self.sample(s)
        for k in knowns:
            self.known(k["dev"], k.get("case"))
        for f in fails:
            self.violation("spec->impl disagreement in %s" % (label or name), f)
        self.stage("replay:" + (label or name), {
            "n": summary.get("n"), "pass": summary.get("pass"),
            "known": summary.get("known"), "fail": summary.get("fail"),
            "panics_observed": summary.get("panics"),
            "wall_s": round(wall, 2)})
        return summary

    # ------------------------------------------------------ trace validation
    def validate_trace(self, module, cfg, trace_path, *, label=None, env=None,
                       timeout=1800, nevents=None, xmx="4g"):
        """I->S: TLC checks that the recorded trace is a behaviour of the
        specification.  The trace spec prints "TRACE_REJECTED {...}" from its
        postcondition when it cannot consume every event."""
        e = {"TRACE": trace_path}
        if env:
            e.update(env)
        res = self.tlc(module, cfg, workers=1, deque=True, env=e, coverage=False,
                       timeout=timeout, label=label or ("trace-" + module), xmx=xmx)
        rejected = res.tagged.get("TRACE_REJECTED")
        accepted = res.ok and not rejected
        if not accepted and not rejected and res.violated is None:
            sys.stdout.write(open(res.log).read()[-4000:])
            raise ToolError("trace validation of %s failed without verdict" % trace_path)
        return accepted, res, (rejected[0] if rejected else None)

    # ------------------------------------------------------------- reporting
    def sample(self, s):
        if len(self.samples) < 6:
            self.samples.append(s)

    def stage(self, name, info):
        self.stages.append(dict(stage=name, **info))

    def assume(self, text):
        if text not in self.assumptions:
            self.assumptions.append(text)

    def known(self, dev, witness=None):
        if dev not in self.open_devs:
            # a deviation that is not listed as open is a violation
            self.violation("deviation %s observed but not listed as open" % dev, witness)
            return
        self.known_witnessed.setdefault(dev, 0)
        self.known_witnessed[dev] += 1

    def violation(self, what, replay_obj):
        blob = json.dumps({"property": self.pid, "what": what, "case": replay_obj},
                          sort_keys=True)
        h = hashlib.sha1(blob.encode()).hexdigest()[:12]
        path = os.path.join(REPLAYS, "%s-%s.json" % (self.pid, h))
        if len(self.violations) < 10:
            with open(path, "w") as f:
                f.write(blob + "\n")
            print("VIOLATION property=%s replay=%s" % (self.pid, path))
            print("  " + what)
            print("  " + blob[:600])
        self.violations.append(path)

    def selftest(self, name, ok):
        self.selftests.append({"name": name, "ok": bool(ok)})
        if not ok:
            raise ToolError("binding self-test failed: " + name)

    def finish(self, level="model_checking", extra=None):
        for dev, n in sorted(self.known_witnessed.items()):
            print("KNOWN-FINDING: property=%s %s %s (witnessed %d times)" %
                  (self.pid, dev, self.open_devs[dev].get("what", ""), n))
        cov = {
            "states": max(self.states, 0),
            "transitions": max(self.transitions, 0),
            "traces_validated_against_impl": self.traces,
            "samples": self.samples or ["(no samples recorded)"],
            "evaluations": self.evaluations,
            "stages": self.stages,
            "action_coverage": {a: {"distinct": d, "generated": g}
                                for a, (d, g) in sorted(self.coverage_actions.items())},
            "binding_selftest": self.selftests,
            "known_findings_witnessed": self.known_witnessed,
            "exhaustive": bool(self.exhaustive_flags) and all(self.exhaustive_flags),
        }
        if extra:
            cov.update(extra)
        ev = {
            "property_id": self.pid,
            "tier": self.tier,
            "seed": self.seed,
            "level": level,
            "coverage": cov,
            "assumptions": self.assumptions,
            "wall_s": round(time.time() - self.t0, 2),
            "violations": len(self.violations),
        }
        with open(os.path.join(EVIDENCE, self.pid + ".json"), "w") as f:
            json.dump(ev, f, indent=1)
            f.write("\n")
        # scratch files can be large
        if not os.environ.get("VERIF_KEEP_WORK"):
            shutil.rmtree(self.work, ignore_errors=True)
        return 1 if self.violations else 0


def write_ndjson(path, objs):
    with open(path, "w") as f:
        for o in objs:
            f.write(json.dumps(o, separators=(",", ":")) + "\n")


def read_ndjson(path):
    out = []
    with open(path) as f:
        for line in f:
            line = line.strip()
            if line:
                out.append(json.loads(line))
    return out
